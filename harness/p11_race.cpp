// C11: workload for ThreadSanitizer + Archer (clang/libomp build). One case = one process = one (workload, thread count).
// Every process first runs a deliberately racy canary region; the oracle requires TSan to have reported it.
#include "common/driver.h"
#include "common/kit.h"
#include "common/solver_kit.h"
#include <unistd.h>

extern "C" void __sanitizer_set_report_path(const char* path) __attribute__((weak));

static double verif_canary_shared = 0.0;
__attribute__((noinline)) void verif_canary_race()
{
#pragma omp parallel num_threads(2)
    {
        verif_canary_shared += 1.0; // unsynchronised read-modify-write by two threads
    }
}

static const int TS[] = {2, 3, 4, 5, 7, 8, 16, 17, 33, 64};

static void operators_case(CaseCtx& c, int T)
{
    Rng& rng = c.rng;
    // grid-shape classes: circles mod 2,3,4; ntheta mod 3 and 4; minimal sizes
    int ncirc = rng.pick({2, 3, 4, 5, 6, 7, 8, 9});
    int nrad  = rng.pick({3, 3, 4, 5, 6, 8});
    int nt    = rng.pick({4, 6, 8, 10, 12, 16, 20, 24, 28, 32, 40, 64});
    bool big  = rng.coin(0.12); // above the 10 000-node threshold of the transfer operators / vector kernels
    if (big) {
        ncirc = rng.range(20, 40);
        nrad  = 81 - ncirc;
        nt    = 128;
    }
    // medium: the coarse-matrix zeroing / assembly of the direct solvers switches to its parallel path above 10 000
    // non-zeros (about 1 150 nodes)
    bool medium = !big && rng.coin(0.12);
    if (medium) {
        ncirc = rng.range(6, 14);
        nrad  = rng.range(25, 29) - ncirc;
        nt    = rng.pick({48, 56, 64});
    }
    int nr = ncirc + nrad;
    GridSpec gs;
    std::string k1, k2;
    double R0 = rng.pick({1e-5, 1e-3, 0.1});
    gs.radii  = gen_radii(rng, nr, R0, 1.3, k1, rng.range(0, 2));
    gs.angles = gen_angles(rng, nt, k2, rng.range(0, 1));
    gs.radial_kind = k1;
    gs.angular_kind = k2;
    set_split(gs, ncirc);
    ProblemSpec ps = random_problem(rng, 1.3, true);
    bool dirbc = rng.coin();
    gs.describe(c.obs.params);
    ps.describe(c.obs.params);
    c.obs.params.b("DirBC_Interior", dirbc).str("kind", "operators").i("circles", ncirc).i("T", T).b("big", big).b("medium", medium);
    c.announce("operators/T" + std::to_string(T));
    ProblemObjs po(ps);
    PolarGrid grid = gs.make();
    const int n = grid.numberOfNodes();
    omp_set_num_threads(T);
    std::vector<std::string> ran;
    for (int cc : {3, 0}) {
        LevelCache lc(grid, *po.prof, *po.geo, cc & 1, (cc >> 1) & 1); // parallel construction
        Vector<double> u = random_vector(rng, n, 0), f = random_vector(rng, n, 0), r(n), t(n);
        {
            ResidualGive op(grid, lc, *po.geo, *po.prof, dirbc, T);
            op.computeResidual(r, f, u);
            ran.push_back("residual_give");
        }
        if (cc == 3) {
            ResidualTake op(grid, lc, *po.geo, *po.prof, dirbc, T);
            op.computeResidual(r, f, u);
            ran.push_back("residual_take");
        }
        if (nt % 4 == 0 && (!big || cc == 3)) { // big grids (parallel-if thresholds at 10 000 nodes): once, with full caches
            {
                SmootherGive op(grid, lc, *po.geo, *po.prof, dirbc, T);
                Vector<double> x = u;
                op.smoothing(x, f, t);
                op.smoothing(x, f, t);
                ran.push_back("smoother_give");
            }
            if (cc == 3) {
                SmootherTake op(grid, lc, *po.geo, *po.prof, dirbc, T);
                Vector<double> x = u;
                op.smoothing(x, f, t);
                ran.push_back("smoother_take");
            }
            if (nr % 2 == 1 && ncirc >= 3) {
                {
                    ExtrapolatedSmootherGive op(grid, lc, *po.geo, *po.prof, dirbc, T);
                    Vector<double> x = u;
                    op.extrapolatedSmoothing(x, f, t);
                    ran.push_back("extrapolated_smoother_give");
                }
                if (cc == 3) {
                    ExtrapolatedSmootherTake op(grid, lc, *po.geo, *po.prof, dirbc, T);
                    Vector<double> x = u;
                    op.extrapolatedSmoothing(x, f, t);
                    ran.push_back("extrapolated_smoother_take");
                }
            }
        }
        if (!big) {
            {
                DirectSolverGiveCustomLU op(grid, lc, *po.geo, *po.prof, dirbc, T);
                Vector<double> x = f;
                op.solveInPlace(x);
                ran.push_back("direct_solver_give");
            }
            if (cc == 3) {
                DirectSolverTakeCustomLU op(grid, lc, *po.geo, *po.prof, dirbc, T);
                Vector<double> x = f;
                op.solveInPlace(x);
                ran.push_back("direct_solver_take");
            }
        }
    }
    // transfers (need a coarsenable grid: nr odd, ntheta multiple of 4 so that the coarse ntheta is even)
    if (nr % 2 == 1 && nt % 4 == 0) {
        Hierarchy H;
        H.build(grid, po, true, true, 2); // coarse LevelCache built in parallel from the fine one
        Level& L0 = *H.levels[0];
        Level& L1 = *H.levels[1];
        const int nc = L1.grid().numberOfNodes();
        std::vector<int> tpl = {T, T};
        Interpolation I(tpl, dirbc);
        Vector<double> xc = random_vector(rng, nc, 0), xf = random_vector(rng, n, 0), rf(n), rc(nc);
        I.applyProlongation(L1, L0, rf, xc);
        I.applyProlongation0(L1, L0, rf, xc);
        I.applyExtrapolatedProlongation(L1, L0, rf, xc);
        I.applyExtrapolatedProlongation0(L1, L0, rf, xc);
        I.applyFMGInterpolation(L1, L0, rf, xc);
        I.applyRestriction(L0, L1, rc, xf);
        I.applyRestriction0(L0, L1, rc, xf);
        I.applyExtrapolatedRestriction(L0, L1, rc, xf);
        I.applyExtrapolatedRestriction0(L0, L1, rc, xf);
        I.applyInjection(L0, L1, rc, xf);
        ran.push_back("transfer_operators");
    }
    // vector kernels and Vector copies (parallel above 10 000 elements)
    {
        int m = big ? n : 10007;
        Vector<double> a = random_vector(rng, m, 0), b = random_vector(rng, m, 0);
        double s = dot_product(a, b) + l1_norm(a) + l2_norm_squared(a) + infinity_norm(a);
        add(a, b);
        subtract(a, b);
        linear_combination(a, 0.5, b, 2.0);
        multiply(a, 1.5);
        assign(b, s * 0 + 1.0);
        Vector<double> cpy(a);
        b = cpy;
        ran.push_back("vector_kernels");
    }
    std::string rs;
    for (auto& s : ran)
        rs += s + ",";
    c.obs.params.str("operators_run", rs);
    JObj sig;
    sig.str("kind", "operators").i("circ_mod2", ncirc % 2).i("circ_mod3", ncirc % 3).i("circ_mod4", ncirc % 4).i("nt_mod3", nt % 3).i("nt_mod4", nt % 4).i("T", T).str("size", big ? "big" : (medium ? "medium" : "small"));
    c.obs.top.obj("sig", sig);
}

static void solver_case(CaseCtx& c, int T)
{
    Rng& rng = c.rng;
    SolverConfig cfg;
    cfg.ps = random_solver_problem(rng, true, true);
    cfg.R0 = rng.pick({1e-5, 1e-3});
    cfg.nr_exp = rng.pick({3, 4, 4});
    cfg.ntheta_exp = -1;
    cfg.aniso = (cfg.nr_exp == 4 && rng.coin(0.2)) ? 2 : 0;
    cfg.dirbc = rng.coin();
    cfg.strategy = rng.range(0, 1);
    if (cfg.strategy == 1) {
        cfg.cache_prof = rng.coin();
        cfg.cache_geo = rng.coin();
    }
    cfg.extrapolation = rng.range(0, 3);
    cfg.cycle = rng.range(0, 2);
    cfg.fmg = rng.coin(0.5);
    cfg.fmg_iters = rng.range(0, 2);
    cfg.fmg_cycle = rng.range(0, 2);
    cfg.maxLevels = rng.pick({-1, -1, 2, 3});
    cfg.maxIterations = rng.range(2, 4);
    cfg.abs_tol = rng.coin() ? 1e-8 : -1;
    cfg.rel_tol = 1e-8;
    cfg.norm = rng.range(0, 2);
    cfg.threads = T;
    cfg.thread_reduction = rng.pick({1.0, 0.7, 0.5});
    cfg.with_exact = rng.coin();
    cfg.describe(c.obs.params);
    c.obs.params.str("kind", "solver").i("T", T);
    c.announce("solver/T" + std::to_string(T));
    // The pointer-route constructor runs the parser defaults (omp_set_num_threads(1)) and the setter does not touch the
    // OpenMP runtime, so the rhs build and the level caches of setup() would run serially: configure the runtime like an
    // application would, or go through the command-line parser (which does it itself).
    bool cli = rng.coin(0.4);
    c.obs.params.str("route", cli ? "cli" : "api");
    auto g = cli ? cfg.make_cli() : cfg.make_api();
    omp_set_num_threads(T);
    g->setup();
    g->solve();
    if (rng.coin(0.3)) { // reuse: a second setup()+solve() on the same object
        g->setup();
        g->solve();
    }
    JObj sig;
    sig.str("kind", "solver").str("strategy", cfg.strategy ? "give" : "take").i("extrap", cfg.extrapolation).i("cycle", cfg.cycle).b("fmg", cfg.fmg).b("dirbc", cfg.dirbc).i("T", T).num("reduction", cfg.thread_reduction);
    c.obs.top.obj("sig", sig);
    c.obs.info.i("iterations", g->numberOfIterations()).i("levels", GMGPolarVerifAccess::number_of_levels(*g));
}

// Every shipped input-function object is shared by all threads of the rhs build / level-cache construction / exact-error
// loops: evaluate all of them concurrently on one object, the way build_rhs_f() does.
static void input_functions_case(CaseCtx& c, int T)
{
    Rng& rng = c.rng;
    c.obs.params.str("kind", "input-functions").i("T", T);
    c.announce("input-functions/T" + std::to_string(T));
    omp_set_num_threads(T);
    const int nr = 12, nt = 16;
    double sink = 0.0;
    int classes = 0;
    for (int geom = 0; geom <= 3; geom++)
        for (int prob = 0; prob <= 3; prob++)
            for (int prof = 0; prof <= 6; prof++) {
                ProblemSpec s;
                s.geom = geom;
                s.prob = prob;
                s.prof = prof;
                s.Rmax = 1.3;
                random_geom_params(rng, s, true);
                s.alpha_jump = documented_alpha_jump(prof, s.Rmax);
                std::unique_ptr<SourceTerm> f;
                std::unique_ptr<BoundaryConditions> bc;
                std::unique_ptr<ExactSolution> ex;
                try {
                    f  = make_source(s);
                    bc = make_boundary(s);
                    ex = make_exact(s);
                }
                catch (const std::exception&) {
                    continue; // combination not shipped
                }
                auto geo = make_geometry(s);
                auto pr  = make_profile(s);
                classes++;
                double local = 0.0;
#pragma omp parallel for reduction(+ : local)
                for (int i = 0; i < nr; i++) {
                    double r = 1e-3 + (s.Rmax - 1e-3) * (i + 0.5) / nr;
                    for (int j = 0; j < nt; j++) {
                        double th = 2 * M_PI * j / nt, sn = std::sin(th), cs = std::cos(th);
                        local += f->rhs_f(r, th, sn, cs) + bc->u_D(s.Rmax, th, sn, cs) + bc->u_D_Interior(r, th, sn, cs) + ex->exact_solution(r, th, sn, cs);
                        local += geo->Fx(r, th, sn, cs) + geo->Fy(r, th, sn, cs) + geo->dFx_dr(r, th, sn, cs) + geo->dFy_dr(r, th, sn, cs) + geo->dFx_dt(r, th, sn, cs) + geo->dFy_dt(r, th, sn, cs);
                        local += pr->alpha(r) + pr->beta(r);
                    }
                }
                sink += local;
            }
    c.obs.info.i("input_function_triples", classes).b("finite", std::isfinite(sink));
    JObj sig;
    sig.str("kind", "input-functions").i("T", T);
    c.obs.top.obj("sig", sig);
}

// Independent solver objects, each restricted to one thread, driven concurrently by application threads (an ensemble run):
// nothing in the library may be shared between objects (function-local statics, global scratch, unsynchronised counters).
static void ensemble_case(CaseCtx& c, int T)
{
    Rng& rng = c.rng;
    const int E = rng.pick({2, 3, 4});
    std::vector<SolverConfig> cfgs(E);
    for (auto& cfg : cfgs) {
        cfg.ps = random_solver_problem(rng, true, true);
        cfg.R0 = rng.pick({1e-5, 1e-3});
        cfg.nr_exp = rng.pick({3, 4});
        cfg.ntheta_exp = -1;
        cfg.dirbc = rng.coin();
        cfg.strategy = rng.range(0, 1);
        if (cfg.strategy == 1) {
            cfg.cache_prof = rng.coin();
            cfg.cache_geo = rng.coin();
        }
        cfg.extrapolation = rng.range(0, 3);
        cfg.cycle = rng.range(0, 2);
        cfg.fmg = rng.coin(0.5);
        cfg.fmg_iters = rng.range(0, 2);
        cfg.maxIterations = rng.range(2, 4);
        cfg.norm = rng.range(0, 2);
        cfg.threads = 1;
        cfg.with_exact = rng.coin();
    }
    cfgs[0].describe(c.obs.params);
    c.obs.params.str("kind", "ensemble").i("T", T).i("objects", E);
    c.announce("ensemble/E" + std::to_string(E));
    std::vector<int> its(E, -1);
    omp_set_num_threads(E);
#pragma omp parallel for num_threads(E) schedule(static, 1)
    for (int e = 0; e < E; e++) {
        auto g = cfgs[e].make_api();
        g->setup();
        g->solve();
        g->setup();
        g->solve();
        its[e] = g->numberOfIterations();
    }
    JObj sig;
    sig.str("kind", "ensemble").i("objects", E).str("strategy0", cfgs[0].strategy ? "give" : "take").i("extrap0", cfgs[0].extrapolation);
    c.obs.top.obj("sig", sig);
    c.obs.info.i("iterations", its[0]);
}

static void run_case(CaseCtx& c)
{
    // one report file per case: <dir>/case<index>.<pid>
    std::string dir = c.arg("tsan_log_dir");
    if (!dir.empty() && __sanitizer_set_report_path) {
        std::string p = dir + "/case" + std::to_string(c.index);
        __sanitizer_set_report_path(p.c_str());
    }
    verif_canary_race();
    int T = TS[c.rng.range(0, 9)];
    c.obs.info.i("pid", (long long)getpid());
    if (c.index % 20 == 19)
        input_functions_case(c, T);
    else if (c.index % 20 == 9)
        ensemble_case(c, T);
    else if (c.index % 3 == 2)
        solver_case(c, T);
    else
        operators_case(c, T);
    c.obs.top.b("nontrivial", true);
}

int main(int argc, char** argv) { return driver_main(argc, argv, "C11", run_case); }
