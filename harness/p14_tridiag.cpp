// C14: tridiagonal line solvers solve every SPD system, every time.
// One case = one input class (cyclic?, n class, generator); `reps` systems are drawn from it.  Each system is handed to a
// fresh SymmetricTridiagonalSolver<double> (or DiagonalSolver<double>), solved for k right-hand sides and re-solved;
// residuals are measured in long double against the ORIGINAL entries and recorded as multiples of a computed magnitude.
#include "common/driver.h"
#include "common/kit.h"
#include "common/ref_operator.h"
#include "common/c14_ref.h"
#include <cfloat>
#include <cstring>
#include <limits>

namespace
{
const char* NCLASS[] = {"n2", "n3", "n4", "n5", "n6-32", "n33-300", "n10000"};
int nclass_of(int n) { return n <= 5 ? n - 2 : (n <= 32 ? 4 : (n <= 300 ? 5 : 6)); }
int draw_n(Rng& rng, int cls)
{
    switch (cls) {
    case 0: return 2;
    case 1: return 3;
    case 2: return 4;
    case 3: return 5;
    case 4: return rng.range(6, 32);
    case 5: return rng.range(33, 300);
    default: return 10000;
    }
}
enum Gen { G_SDD = 0, G_LDLT, G_ZEROSUB, G_SCALED, G_STENCIL, G_FIXED, G_DIAGSOLVER, G_ILLCOND, G_COUNT };
const char* GEN[] = {"sdd", "ldlt", "zero-sub", "scaled", "stencil-line", "fixed-list", "diagonal-solver", "ill-conditioned"};

// the assertion tolerance of include/common/equals.h (|a| <= 1e3 eps max(1,|a|)); used ONLY to label the input class
// of a system in announce() so that an assertion abort gets a specific key.  Never used to skip or alter an input.
const double EQUALS_ABS_TOL = 1e3 * DBL_EPSILON;

double offmag(Rng& rng, int mode)
{
    switch (mode) {
    case 0: return rng.uniform(0.1, 1.0);
    case 1: return rng.loguniform(1e-3, 1e3);
    default: return 1.0;
    }
}
double offsign(Rng& rng, int mode) { return mode == 0 ? rng.sign() : (mode == 1 ? -1.0 : 1.0); }

// strictly diagonally dominant, positive diagonal => SPD
TriSys gen_sdd(Rng& rng, int n, bool cyclic, std::string& sub, bool unit_magnitudes = false)
{
    TriSys A;
    A.n = n, A.cyclic = cyclic;
    A.d.assign(n, 0.0);
    A.s.assign(n - 1, 0.0);
    int mm = rng.range(0, 2), sm = rng.range(0, 2);
    if (unit_magnitudes && mm == 1)
        mm = 0; // entries of order one, so that a later D A D scaling alone determines the spread
    for (auto& v : A.s)
        v = offsign(rng, sm) * offmag(rng, mm);
    if (cyclic)
        A.c = rng.coin(0.1) ? 0.0 : rng.sign() * offmag(rng, mm);
    bool global_margin = rng.coin();
    double gm          = rng.loguniform(1e-4, 10.0);
    std::vector<double> rs(n, 0.0);
    for (int i = 0; i + 1 < n; i++) {
        rs[i] += std::fabs(A.s[i]);
        rs[i + 1] += std::fabs(A.s[i]);
    }
    if (cyclic) {
        rs[0] += std::fabs(A.c);
        rs[n - 1] += std::fabs(A.c);
    }
    for (int i = 0; i < n; i++) {
        double m = global_margin ? gm : rng.loguniform(1e-4, 10.0);
        A.d[i]   = rs[i] > 0 ? rs[i] * (1.0 + m) : rng.loguniform(0.1, 10.0);
    }
    sub = std::string("mag") + char('0' + mm) + "sign" + char('0' + sm);
    return A;
}

// T = L D L^T (unit bidiagonal L, |l| < 0.95, D in [1e-2,1e2]); cyclic: corner added either together with the PSD
// rank-one |c| (e0 +- e_{n-1})(e0 +- e_{n-1})^T or bare, shrunk until the long-double reference factorisation says SPD
TriSys gen_ldlt(Rng& rng, int n, bool cyclic, std::string& sub)
{
    TriSys A;
    A.n = n, A.cyclic = cyclic;
    A.d.assign(n, 0.0);
    A.s.assign(n - 1, 0.0);
    std::vector<double> D(n);
    for (auto& v : D)
        v = rng.loguniform(1e-2, 1e2);
    A.d[0] = D[0];
    for (int i = 0; i + 1 < n; i++) {
        double l   = rng.uniform(-0.95, 0.95);
        A.s[i]     = l * D[i];
        A.d[i + 1] = D[i + 1] + l * l * D[i];
    }
    sub = "plain";
    if (cyclic) {
        if (rng.coin()) {
            double c = rng.sign() * rng.loguniform(1e-3, 10.0) * std::sqrt(A.d[0] * A.d[n - 1]);
            A.c      = c;
            A.d[0] += std::fabs(c);
            A.d[n - 1] += std::fabs(c);
            sub = "psd-corner";
        }
        else {
            A.c = rng.sign() * rng.uniform(0.1, 0.99) * std::sqrt(A.d[0] * A.d[n - 1]);
            for (int it = 0; it < 200; it++) {
                RefLDLT f(A);
                if (f.spd() && f.piv_rel > 1e-6L)
                    break;
                A.c *= 0.7;
            }
            sub = "bare-corner";
        }
    }
    return A;
}

// SPD but close to singular (condition number up to ~1e8): shifted (periodic) Laplacians with random similarity signs,
// or L D L^T with a wide D and a bare corner pushed towards the SPD boundary
TriSys gen_illcond(Rng& rng, int n, bool cyclic, std::string& sub)
{
    TriSys A;
    if (rng.coin()) {
        A.n = n, A.cyclic = cyclic;
        double eps = rng.loguniform(1e-8, 1e-1);
        A.d.assign(n, 2.0 + eps);
        A.s.assign(n - 1, -1.0);
        if (cyclic)
            A.c = -1.0;
        if (cyclic && n == 2) { // the overlap: off-diagonal s0 + c must stay below the diagonal
            A.s[0] = -rng.uniform(0.0, 2.0);
            A.c    = -2.0 - A.s[0];
        }
        if (rng.coin()) { // similarity with a diagonal of +-1: same spectrum, mixed signs
            std::vector<double> sg(n);
            for (auto& v : sg)
                v = rng.sign();
            for (int i = 0; i + 1 < n; i++)
                A.s[i] *= sg[i] * sg[i + 1];
            if (cyclic)
                A.c *= sg[0] * sg[n - 1];
        }
        double f = rng.coin() ? 1.0 : rng.loguniform(1e-3, 1e3);
        for (auto& v : A.d)
            v *= f;
        for (auto& v : A.s)
            v *= f;
        A.c *= f;
        sub = "laplace-shift";
        return A;
    }
    A.n = n, A.cyclic = cyclic;
    A.d.assign(n, 0.0);
    A.s.assign(n - 1, 0.0);
    std::vector<double> D(n);
    for (auto& v : D)
        v = rng.loguniform(1e-3, 1e3);
    A.d[0] = D[0];
    for (int i = 0; i + 1 < n; i++) {
        double l   = rng.uniform(-0.99, 0.99);
        A.s[i]     = l * D[i];
        A.d[i + 1] = D[i + 1] + l * l * D[i];
    }
    sub = "ldlt-wide";
    if (cyclic) {
        A.c = rng.sign() * std::sqrt(A.d[0] * A.d[n - 1]);
        double target = rng.loguniform(1e-9, 1e-3);
        for (int it = 0; it < 400; it++) {
            RefLDLT f(A);
            if (f.spd() && f.piv_rel > target)
                break;
            A.c *= rng.uniform(0.8, 0.999);
        }
        sub = "ldlt-wide-bare-corner";
    }
    return A;
}

void zero_some_subs(Rng& rng, TriSys& A, std::string& sub)
{
    double p = rng.pick({0.3, 0.7, 1.0});
    for (auto& v : A.s)
        if (rng.coin(p))
            v = 0.0;
    if (p < 1.0 && A.n >= 2 && rng.coin(0.3))
        A.s[rng.range(0, A.n - 2)] = 0.0; // at least one
    if (A.cyclic && rng.coin(0.3))
        A.c = 0.0;
    sub += p == 1.0 ? "+allzero" : "+somezero";
}

// symmetric scaling D A D, delta_i in 10^[-E,E]
void scale_sym(Rng& rng, TriSys& A, int E, std::vector<double>& delta, std::string& sub)
{
    const int n = A.n;
    delta.assign(n, 1.0);
    int mode = rng.range(0, 2);
    for (int i = 0; i < n; i++) {
        if (mode == 0)
            delta[i] = std::pow(10.0, rng.uniform(-E, E)); // random per row
        else if (mode == 1)
            delta[i] = std::pow(10.0, -E + 2.0 * E * i / (n - 1)); // monotone ramp (r -> R0 like)
        else {
            int e2   = (int)std::floor(E * 3.3219280948873623); // powers of two: the scaling itself is exact
            delta[i] = std::exp2((double)rng.range(-e2, e2));
        }
    }
    for (int i = 0; i < n; i++)
        A.d[i] = (delta[i] * A.d[i]) * delta[i];
    for (int i = 0; i + 1 < n; i++)
        A.s[i] = (delta[i] * A.s[i]) * delta[i + 1];
    if (A.cyclic)
        A.c = (delta[0] * A.c) * delta[n - 1];
    sub += std::string("+D") + (mode == 0 ? "rand" : (mode == 1 ? "ramp" : "pow2"));
}

TriSys fixed_system(int k, std::string& sub)
{
    TriSys A;
    auto set = [&](bool cyc, std::vector<double> d, std::vector<double> s, double c, const char* name) {
        A.n = (int)d.size(), A.cyclic = cyc, A.d = d, A.s = s, A.c = c;
        sub = name;
    };
    switch (k) {
    case 0: set(true, {4, 3}, {1}, -0.5, "cyc2-mixed"); break;
    case 1: set(true, {2, 2}, {0}, 1, "cyc2-corner-only"); break;
    case 2: set(true, {2, 2}, {1}, -1, "cyc2-cancel"); break;
    case 3: set(true, {1, 1}, {0.5}, 0.45, "cyc2-near-singular"); break;
    case 4: set(true, {2.5, 2.5, 2.5}, {-1, -1}, -1, "cyc3-laplace"); break;
    case 5: set(true, {2, 3, 4}, {1, -1}, 0.5, "cyc3-pos-corner"); break;
    case 6: set(true, {2, 3, 4}, {1, -1}, -0.5, "cyc3-neg-corner"); break;
    case 7: set(true, {2, 2, 2}, {0, 0}, 1, "cyc3-corner-only"); break;
    case 8: set(false, {4, 5, 6, 7, 8}, {-1, -1, -1, -1}, 0, "tri5-F1"); break;
    case 9: set(true, {4, 5, 6, 7, 8}, {-1, -1, -1, -1}, -1, "cyc5-F1"); break;
    case 10: set(true, {2.01, 2.01, 2.01, 2.01}, {-1, -1, -1}, -1, "cyc4-periodic-laplace"); break;
    case 11: set(false, {1, 1}, {0.999}, 0, "tri2-near-singular"); break;
    case 12: set(false, {2, 2, 2}, {-1, -1}, 0, "tri3-laplace"); break;
    case 13: set(true, {3, 3}, {-1}, 0, "cyc2-zero-corner"); break;
    // strictly diagonally dominant (margin 1e-3), every entry scaled by 1e-10 = (1e-5)^2: second pivot 2.0e-13
    default: set(false, {1.001e-10, 1.001e-10}, {1e-10}, 0, "tri2-sdd-times-1e-10"); break;
    }
    return A;
}
const int N_FIXED = 15;

// line matrices of the documented discretisation (reference stencil, harness/common/ref_operator.h) on a generated
// grid/geometry: circle line i_r (cyclic, n = ntheta) or radial line i_theta (n = lengthSmootherRadial, last row Dirichlet)
struct StencilSource {
    std::unique_ptr<ProblemObjs> po;
    std::unique_ptr<PolarGrid> grid;
    std::unique_ptr<RefOp> ref;
    GridSpec gs;
    ProblemSpec ps;
    void build(Rng& rng, bool want_large)
    {
        GridOpts go;
        go.nr_min = 5, go.nr_max = want_large ? 48 : 20;
        go.nth_min = 4, go.nth_max = want_large ? 128 : 32;
        go.Rmax = rng.pick({1.0, 1.3, 2.0});
        gs      = gen_grid(rng, go);
        ps      = random_problem(rng, go.Rmax, false);
        po      = std::make_unique<ProblemObjs>(ps);
        grid    = std::make_unique<PolarGrid>(gs.make());
        ref     = std::make_unique<RefOp>(*grid, *po->geo, *po->prof, false);
    }
    TriSys line(Rng& rng, bool cyclic, std::string& sub) const
    {
        TriSys A;
        std::vector<std::pair<int, ld>> e;
        const int ncirc = grid->numberSmootherCircles(), nr = grid->nr(), nt = grid->ntheta();
        if (cyclic) {
            int ir = rng.range(1, ncirc - 1);
            A.n = nt, A.cyclic = true;
            A.d.assign(nt, 0.0);
            A.s.assign(nt - 1, 0.0);
            for (int j = 0; j < nt; j++) {
                ref->row(ir, j, e);
                A.d[j] = (double)e[4].second;
                if (j + 1 < nt)
                    A.s[j] = (double)e[3].second;
                else
                    A.c = (double)e[3].second;
            }
            sub = ir == 1 ? "circle1" : "circle";
        }
        else {
            int jt = rng.range(0, nt - 1);
            int n  = nr - ncirc;
            A.n = n, A.cyclic = false;
            A.d.assign(n, 0.0);
            A.s.assign(n - 1, 0.0);
            for (int i = ncirc; i < nr; i++) {
                ref->row(i, jt, e);
                if (i == nr - 1) {
                    A.d[i - ncirc] = 1.0;
                    break;
                }
                A.d[i - ncirc] = (double)e[4].second;
                A.s[i - ncirc] = i + 1 < nr - 1 ? (double)e[1].second : 0.0; // coupling to the Dirichlet node is moved to the rhs
            }
            sub = "radial";
        }
        return A;
    }
};

std::vector<double> gen_rhs(Rng& rng, const TriSys& A, int kind, const std::vector<double>* delta)
{
    const int n = A.n;
    std::vector<double> b(n, 0.0);
    switch (kind) {
    case 0:
        for (auto& v : b)
            v = rng.uniform(-1, 1);
        break;
    case 1:
        for (auto& v : b)
            v = rng.sign() * std::pow(10.0, rng.uniform(-6, 6));
        break;
    case 2: {
        int k = 1 + (int)(rng.next() % 3);
        for (int j = 0; j < k; j++)
            b[rng.range(0, n - 1)] = rng.sign() * rng.uniform(0.5, 2.0);
        break;
    }
    case 3: { // b = A x_true
        std::vector<ld> xt(n), Ax, a;
        for (auto& v : xt)
            v = rng.uniform(-1, 1);
        tri_apply(A, xt, Ax, a);
        for (int i = 0; i < n; i++)
            b[i] = (double)Ax[i];
        break;
    }
    default: break; // zero
    }
    if (delta && kind != 3)
        for (int i = 0; i < n; i++)
            b[i] *= (*delta)[i];
    return b;
}
const char* RHS[] = {"uniform", "wide", "spikes", "A*x", "zero"};

bool all_finite(const std::vector<double>& v)
{
    for (double x : v)
        if (!std::isfinite(x))
            return false;
    return true;
}
double ninf(const std::vector<ld>& v)
{
    ld m = 0;
    for (ld x : v)
        m = std::max(m, fabsl(x));
    return (double)m;
}
} // namespace

static void run_case(CaseCtx& c)
{
    Rng& rng       = c.rng;
    const int reps = std::max(1, atoi(c.arg("reps", "1").c_str()));
    const double AMP_CAP = atof(c.arg("amp_cap", "1e4").c_str());
    const int dump_rep   = atoi(c.arg("dump_rep", "-1").c_str());
    int dump_seq         = 0;

    // ---- class of this case
    int gen = G_SDD;
    {
        static const int w[G_COUNT] = {18, 16, 10, 20, 12, 6, 6, 12};
        int t = rng.range(0, 99), acc = 0;
        for (int g = 0; g < G_COUNT; g++) {
            acc += w[g];
            if (t < acc) {
                gen = g;
                break;
            }
        }
    }
    bool cyclic = rng.coin();
    int ncls;
    {
        static const int w[7] = {10, 10, 6, 6, 34, 32, 2};
        int t = rng.range(0, 99), acc = 0;
        ncls = 6;
        for (int k = 0; k < 7; k++) {
            acc += w[k];
            if (t < acc) {
                ncls = k;
                break;
            }
        }
    }
    int fixed_k = -1;
    StencilSource src;
    if (gen == G_FIXED) {
        fixed_k = rng.range(0, N_FIXED - 1);
        std::string s;
        TriSys A = fixed_system(fixed_k, s);
        cyclic   = A.cyclic;
        ncls     = nclass_of(A.n);
    }
    else if (gen == G_STENCIL) {
        src.build(rng, ncls >= 5);
        int n = cyclic ? src.grid->ntheta() : src.grid->lengthSmootherRadial();
        ncls  = nclass_of(n);
        src.gs.describe(c.obs.params);
        src.ps.describe(c.obs.params);
    }
    else if (gen == G_DIAGSOLVER)
        cyclic = false;
    int E = gen == G_SCALED ? rng.range(1, 5) : 0;
    c.obs.params.str("gen", GEN[gen]).b("cyclic", cyclic).str("n_class", NCLASS[ncls]).i("reps", reps).i("scale_exp", E);
    const std::string base_cls = std::string(cyclic ? "cyc" : "tri") + "/" + NCLASS[ncls] + "/" + GEN[gen];
    c.announce(base_cls);

    long long systems = 0, solves = 0, resolves = 0, nontriv_systems = 0, beyond_cap = 0, not_spd = 0, below_tol = 0;
    double amp_max = 0, tau_min = 1, pivrel_min = 1, decade_max = 0, fwd_max = 0, eta_cyc_raw_max = 0, worst_val = -1;
    JObj worst;

    for (int rep = 0; rep < reps; rep++) {
        // ---- generate one system
        TriSys A;
        std::string sub;
        std::vector<double> delta;
        const int n = gen == G_FIXED ? 0 : (gen == G_STENCIL ? 0 : draw_n(rng, ncls));
        switch (gen) {
        case G_SDD: A = gen_sdd(rng, n, cyclic, sub); break;
        case G_LDLT: A = gen_ldlt(rng, n, cyclic, sub); break;
        case G_ZEROSUB:
            A = (cyclic || rng.coin()) ? gen_sdd(rng, n, cyclic, sub) : gen_ldlt(rng, n, cyclic, sub);
            zero_some_subs(rng, A, sub);
            break;
        case G_SCALED: {
            int base = rng.range(0, 2);
            A        = base == 1 ? gen_ldlt(rng, n, cyclic, sub) : gen_sdd(rng, n, cyclic, sub, true);
            sub      = std::string(base == 1 ? "ldlt-" : "sdd-") + sub;
            if (base == 2)
                zero_some_subs(rng, A, sub);
            scale_sym(rng, A, E, delta, sub);
            break;
        }
        case G_STENCIL: A = src.line(rng, cyclic, sub); break;
        case G_ILLCOND: A = gen_illcond(rng, n, cyclic, sub); break;
        case G_FIXED: {
            A        = fixed_system(fixed_k, sub);
            double f = rng.coin() ? 1.0 : rng.loguniform(1e-3, 1e3);
            for (auto& v : A.d)
                v *= f;
            for (auto& v : A.s)
                v *= f;
            A.c *= f;
            break;
        }
        default: { // DiagonalSolver: positive diagonal, optionally widely scaled
            A.n = n, A.cyclic = false;
            A.d.assign(n, 0.0);
            A.s.assign(n - 1, 0.0);
            int Ed = rng.range(0, 5);
            for (auto& v : A.d)
                v = rng.uniform(0.5, 2.0) * std::pow(10.0, rng.uniform(-2.0 * Ed, 2.0 * Ed));
            sub = "posdiag";
            break;
        }
        }
        systems++;
        // ---- reference facts about the input (long double, independent of the solver)
        RefLDLT fac(A);
        if (!fac.spd()) { // outside the property's precondition: counted, not run
            not_spd++;
            continue;
        }
        pivrel_min = std::min(pivrel_min, (double)fac.piv_rel);
        double dmax = 0, dmin = INFINITY;
        for (double v : A.d)
            dmax = std::max(dmax, v), dmin = std::min(dmin, v);
        decade_max        = std::max(decade_max, 0.5 * std::log10(dmax / dmin));
        const bool nontri = A.offdiag_nonzero();
        nontriv_systems += nontri;
        const ld normA = tri_norm_inf(A);
        // gradual underflow: below DBL_MIN the relative error model of IEEE arithmetic does not hold (x decaying to
        // denormals far from a spike of b); a few denormal ulps in an intermediate, divided by the smallest pivot and
        // multiplied by the row, are granted: floor_i = 64 DBL_MIN (1 + sum_j |a_ij|) / piv_rel   (DBL_MIN*eps = denorm_min);
        // cyclic: times (1 + |f|), because the denormal tail of q = B^-1 u enters x multiplied by the Sherman-Morrison factor f
        std::vector<ld> uflow(A.n);
        {
            std::vector<ld> one(A.n, 1.0L), t, a;
            tri_apply(A, one, t, a);
            for (int i = 0; i < A.n; i++)
                uflow[i] = 64.0L * (ld)DBL_MIN * (1.0L + a[i]) / fac.piv_rel;
        }

        auto describe = [&](JObj& o) {
            o.i("rep", rep).i("n", A.n).b("cyclic", A.cyclic).str("gen", GEN[gen]).str("variant", sub);
            o.num("piv_rel_min", (double)fac.piv_rel).num("piv_abs_min", (double)fac.piv_abs);
            if (A.n <= 6) {
                o.nums("main_diagonal", A.d).nums("sub_diagonal", A.s);
                if (A.cyclic)
                    o.num("corner", A.c);
            }
        };
        bool relabelled = false;
        if (gen != G_DIAGSOLVER && !A.cyclic && (double)fac.piv_abs <= EQUALS_ABS_TOL * std::max(1.0, (double)fac.piv_abs)) {
            // the non-cyclic path asserts !equals(pivot, 0.0): label the class so an abort is attributed precisely
            below_tol++;
            JObj p = c.obs.params;
            JObj sysd;
            describe(sysd);
            c.obs.params.obj("system", sysd);
            c.announce(base_cls + "/pivot-below-equals-tolerance");
            c.obs.params = p;
            relabelled   = true;
        }

        // ---- right-hand sides
        const int k = rng.range(1, 4);
        std::vector<std::vector<double>> rhs(k), sol(k);
        std::vector<int> rkind(k);
        for (int j = 0; j < k; j++) {
            int t    = rng.range(0, 19);
            rkind[j] = t < 7 ? 0 : (t < 11 ? 1 : (t < 14 ? 2 : (t < 19 ? 3 : 4)));
            rhs[j]   = gen_rhs(rng, A, rkind[j], delta.empty() || rng.coin() ? nullptr : &delta);
        }
        const std::string kbase = std::string(NCLASS[nclass_of(A.n)]) + "/" + GEN[gen];
        auto note_worst = [&](double v, const char* what, int j) {
            if (std::isnan(v))
                v = INFINITY;
            if (v > worst_val) {
                worst_val = v;
                worst     = JObj();
                describe(worst);
                worst.str("check", what).i("rhs_index", j).str("rhs_kind", RHS[rkind[j]]);
                if (A.n <= 6)
                    worst.nums("rhs", rhs[j]);
            }
        };

        // ---- measurement of one returned solution
        auto measure = [&](const std::vector<double>& x, int j, bool first) {
            const std::string key = kbase + (first ? "/first-solve" : "/later-solve");
            const std::vector<double>& b = rhs[j];
            const double nan = std::numeric_limits<double>::quiet_NaN();
            bool fin = all_finite(x);
            std::vector<ld> xl(x.begin(), x.end()), bl(b.begin(), b.end()), Ax, aAx;
            tri_apply(A, xl, Ax, aAx);
            ld rmax = 0, row = 0, nb = 0, nx = 0;
            std::vector<ld> r(A.n);
            for (int i = 0; i < A.n; i++) {
                r[i] = Ax[i] - bl[i];
                rmax = std::max(rmax, fabsl(r[i]));
                nb   = std::max(nb, fabsl(bl[i]));
                nx   = std::max(nx, fabsl(xl[i]));
                ld sc = aAx[i] + fabsl(bl[i]) + uflow[i];
                row   = std::max(row, fabsl(r[i]) / sc);
            }
            ld den   = normA * nx + nb;
            double eta = den > 0 ? (double)(rmax / den) : (rmax == 0 ? 0.0 : INFINITY);
            if (gen == G_DIAGSOLVER) {
                c.obs.check("diag_residual", fin ? (double)row : nan, kbase);
                note_worst(fin ? (double)row : nan, "diag_residual", j);
                return;
            }
            // forward error against the reference solution (logged only)
            std::vector<ld> xr;
            fac.solve(bl, xr);
            double nxr = ninf(xr);
            if (fin && nxr > 0) {
                ld e = 0;
                for (int i = 0; i < A.n; i++)
                    e = std::max(e, fabsl(xl[i] - xr[i]));
                fwd_max = std::max(fwd_max, (double)e / nxr);
            }
            if (!A.cyclic) {
                c.obs.check("tri_residual_norm", fin ? eta : nan, key);
                c.obs.check("tri_residual_rowwise", fin ? (double)row : nan, key);
                note_worst(fin ? (double)row : nan, "tri_residual_rowwise", j);
                return;
            }
            SMScale sm = sm_scale(A, bl);
            ld v = 0, nS = 0;
            int iw = 0;
            for (int i = 0; i < A.n; i++) {
                nS    = std::max(nS, sm.S[i]);
                ld vi = fabsl(r[i]) / (sm.S[i] + uflow[i] * (1.0L + fabsl(sm.f)));
                if (vi > v)
                    v = vi, iw = i;
            }
            if (dump_rep == rep) { // diagnostic for replays: --arg dump_rep=<rep of worst_system>
                JObj dj;
                dj.i("rhs_index", j).i("row", iw).num("residual", (double)r[iw]).num("scale_S", (double)sm.S[iw]).num("underflow_floor", (double)uflow[iw]);
                dj.num("x_row", x[iw]).num("x_ref_row", (double)xr[iw]).num("b_row", b[iw]).num("tau", (double)sm.tau).num("f", (double)sm.f);
                dj.num("absAx_row", (double)aAx[iw]).num("d_row", A.d[iw]).num("x_prev", x[(iw + A.n - 1) % A.n]).num("x_next", x[(iw + 1) % A.n]);
                dj.num("xref_prev", (double)xr[(iw + A.n - 1) % A.n]).num("xref_next", (double)xr[(iw + 1) % A.n]);
                c.obs.info.obj("dump_solve" + std::to_string(dump_seq++), dj);
            }
            ld den_ref = normA * (ld)nxr + nb;
            double amp = den_ref > 0 ? (double)(nS / den_ref) : 1.0;
            amp_max    = std::max(amp_max, amp);
            tau_min    = std::min(tau_min, (double)sm.tau);
            if (fin)
                eta_cyc_raw_max = std::max(eta_cyc_raw_max, eta);
            c.obs.check("cyc_residual_sm", fin ? (double)v : nan, key);
            note_worst(fin ? (double)v : nan, "cyc_residual_sm", j);
            if (amp <= AMP_CAP)
                c.obs.check("cyc_residual_norm", fin ? eta / std::max(1.0, amp) : nan, key);
            else
                beyond_cap++;
        };

        // ---- run the real code
        const double poison = std::numeric_limits<double>::quiet_NaN();
        if (gen == G_DIAGSOLVER) {
            DiagonalSolver<double> S(A.n);
            for (int i = 0; i < A.n; i++)
                S.diagonal(i) = A.d[i];
            for (int j = 0; j < k; j++) {
                std::vector<double> x = rhs[j];
                S.solveInPlace(x.data());
                solves++;
                sol[j] = x;
                measure(x, j, j == 0);
            }
            for (int j = 0; j < k; j++) {
                std::vector<double> x = rhs[j];
                S.solveInPlace(x.data());
                resolves++;
                c.obs.require("repeat_identical", std::memcmp(x.data(), sol[j].data(), sizeof(double) * A.n) == 0, kbase);
            }
            continue;
        }
        SymmetricTridiagonalSolver<double> S(A.n);
        // set-up order: the flag is a plain attribute ("optionally set the cyclic boundary condition flag": a new solver
        // is cyclic), so it may be set before the entries (what the smoothers do), after them, or not at all for a cyclic
        // system; and it may be re-asserted with its unchanged value between solves
        const int order = rng.range(0, 3);
        if (order == 0 || !A.cyclic)
            S.is_cyclic(A.cyclic);
        for (int i = 0; i < A.n; i++)
            S.main_diagonal(i) = A.d[i];
        for (int i = 0; i + 1 < A.n; i++)
            S.sub_diagonal(i) = A.s[i];
        if (A.cyclic)
            S.cyclic_corner_element() = A.c;
        if (order == 1 && A.cyclic)
            S.is_cyclic(true);
        const bool reassert_flag = order == 3;
        std::vector<double> t1(A.n), t2(A.n);
        auto solve = [&](std::vector<double>& x) {
            int tm = rng.range(0, 2); // temp storage content must not matter: NaN, garbage, or left over
            if (tm < 2)
                for (int i = 0; i < A.n; i++) {
                    t1[i] = tm == 0 ? poison : rng.uniform(-1e6, 1e6);
                    t2[i] = tm == 0 ? poison : rng.uniform(-1e6, 1e6);
                }
            double* p2 = A.cyclic ? t2.data() : (rng.coin() ? t2.data() : nullptr);
            if (reassert_flag)
                S.is_cyclic(A.cyclic);
            S.solveInPlace(x.data(), t1.data(), p2);
        };
        bool immediate = rng.coin(0.5);
        for (int j = 0; j < k; j++) {
            std::vector<double> x = rhs[j];
            solve(x);
            solves++;
            sol[j] = x;
            measure(x, j, j == 0);
            if (j == 0 && rng.coin(0.3)) {
                // a solver of the same dimension that holds (and may have factorised) another SPD system takes over this
                // one by copy assignment between two solves: it must then solve exactly like the source
                SymmetricTridiagonalSolver<double> T(A.n);
                T.is_cyclic(A.cyclic);
                for (int i = 0; i < A.n; i++)
                    T.main_diagonal(i) = 2.0 * A.d[i]; // A + diag(A) is SPD as well
                for (int i = 0; i + 1 < A.n; i++)
                    T.sub_diagonal(i) = A.s[i];
                if (A.cyclic)
                    T.cyclic_corner_element() = A.c;
                std::vector<double> tt1(A.n), tt2(A.n);
                if (rng.coin(0.6)) {
                    std::vector<double> z = rhs[0];
                    T.solveInPlace(z.data(), tt1.data(), tt2.data());
                }
                T = S;
                std::vector<double> y = rhs[0];
                T.solveInPlace(y.data(), tt1.data(), tt2.data());
                bool same = std::memcmp(y.data(), sol[0].data(), sizeof(double) * A.n) == 0;
                c.obs.require("repeat_identical", same, kbase + "/copy-assigned-over-another-system");
                if (!same)
                    note_worst(INFINITY, "repeat_identical", 0);
            }
            if (j == 0 && immediate) { // same object, same rhs, directly after the factorising solve
                std::vector<double> y = rhs[0];
                solve(y);
                resolves++;
                bool same = std::memcmp(y.data(), sol[0].data(), sizeof(double) * A.n) == 0;
                c.obs.require("repeat_identical", same, kbase + "/second-solve-same-rhs");
                if (!same)
                    note_worst(INFINITY, "repeat_identical", 0);
            }
        }
        int m = rng.range(1, 3);
        for (int q = 0; q < m; q++) {
            int j                 = rng.range(0, k - 1);
            std::vector<double> y = rhs[j];
            solve(y);
            resolves++;
            bool same = std::memcmp(y.data(), sol[j].data(), sizeof(double) * A.n) == 0;
            c.obs.require("repeat_identical", same, kbase + (k > 1 ? "/after-other-rhs" : "/repeated-same-rhs"));
            if (!same)
                note_worst(INFINITY, "repeat_identical", j);
        }
        if (relabelled)
            c.announce(base_cls);
    }

    // ---- classification / evidence
    int decade = (int)std::lround(decade_max);
    JObj sig;
    sig.b("cyclic", cyclic).str("n_class", NCLASS[ncls]).str("gen", GEN[gen]).i("decade", decade);
    c.obs.top.obj("sig", sig);
    c.obs.top.b("nontrivial", nontriv_systems > 0 && solves > 0);
    if (worst_val >= 0)
        c.obs.params.obj("worst_system", worst);
    c.obs.info.i("systems", systems).i("solves", solves).i("resolves", resolves).i("nontrivial_systems", nontriv_systems);
    c.obs.info.i("cyc_beyond_cap", beyond_cap).i("not_spd", not_spd).i("pivot_below_equals_tol", below_tol);
    c.obs.info.num("amp_max", amp_max).num("tau_min", tau_min).num("piv_rel_min", pivrel_min).num("decade_max", decade_max);
    c.obs.info.num("forward_error_max", fwd_max).num("cyc_eta_unscaled_max", eta_cyc_raw_max);
}

int main(int argc, char** argv) { return driver_main(argc, argv, "C14", run_case); }
