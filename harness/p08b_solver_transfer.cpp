// C08 (solver level): the transfer wrappers the multigrid cycles call -- GMGPolar::prolongation, restriction, injection,
// extrapolatedProlongation, extrapolatedRestriction, FMGInterpolation -- are the operators of the Interpolation class on the
// solver's own levels, in every extrapolation mode and at every point of the object's life (after setup, after a solve that
// switched the smoother mode, after a second setup): restriction stays the transpose of prolongation.
#include "common/driver.h"
#include "common/kit.h"
#include "common/solver_kit.h"
#include <cstring>

static void run_case(CaseCtx& c)
{
    Rng& rng = c.rng;
    SolverConfig cfg;
    cfg.ps = random_solver_problem(rng, true, true);
    cfg.R0 = rng.pick({1e-5, 1e-3, 0.1});
    cfg.nr_exp = rng.pick({3, 4, 4});
    cfg.ntheta_exp = -1;
    cfg.divideBy2 = rng.coin(0.2) ? 1 : 0;
    cfg.aniso = (cfg.nr_exp == 4 && rng.coin(0.2)) ? 2 : 0;
    cfg.dirbc = rng.coin();
    cfg.strategy = rng.range(0, 1);
    if (cfg.strategy == 1) {
        cfg.cache_prof = rng.coin();
        cfg.cache_geo = rng.coin();
    }
    cfg.extrapolation = rng.range(0, 3);
    cfg.cycle = rng.range(0, 2);
    cfg.fmg = rng.coin(0.4);
    cfg.fmg_iters = rng.range(0, 2);
    cfg.maxLevels = rng.pick({-1, -1, 2, 3});
    cfg.maxIterations = rng.pick({0, 2, 40});
    cfg.threads = rng.pick({1, 1, 4});
    cfg.thread_reduction = rng.pick({1.0, 0.5});
    cfg.with_exact = false;
    const int history = rng.range(0, 2); // 0: after setup, 1: after setup+solve, 2: after setup+solve+setup
    static const char* HN[] = {"after-setup", "after-solve", "after-second-setup"};
    cfg.describe(c.obs.params);
    c.obs.params.str("history", HN[history]);
    c.announce(std::string("ex") + std::to_string(cfg.extrapolation) + "/" + HN[history]);
    auto g = cfg.make_api();
    omp_set_num_threads(cfg.threads);
    g->setup();
    if (history >= 1)
        g->solve();
    if (history == 2)
        g->setup();
    auto& levels = GMGPolarVerifAccess::levels(*g);
    const int nlev = GMGPolarVerifAccess::number_of_levels(*g);
    c.obs.params.i("levels", nlev).b("full_grid_smoothing", GMGPolarVerifAccess::full_grid_smoothing(*g));
    // an independent Interpolation object with the solver's thread distribution
    std::vector<int> tpl = GMGPolarVerifAccess::threads_per_level(*g);
    Interpolation I(tpl, cfg.dirbc);
    typedef void (Interpolation::*ApplyFn)(const Level&, const Level&, Vector<double>&, const Vector<double>&) const;
    struct Op { const char* name; int which; bool up; ApplyFn fn; };
    const Op ops[] = {{"prolongation", 0, true, &Interpolation::applyProlongation},
                      {"restriction", 1, false, &Interpolation::applyRestriction},
                      {"injection", 2, false, &Interpolation::applyInjection},
                      {"extrapolated-prolongation", 3, true, &Interpolation::applyExtrapolatedProlongation},
                      {"extrapolated-restriction", 4, false, &Interpolation::applyExtrapolatedRestriction},
                      {"fmg-interpolation", 5, true, &Interpolation::applyFMGInterpolation}};
    const std::string mode = std::string("ex") + std::to_string(cfg.extrapolation) + "/" + HN[history];
    for (int l = 0; l + 1 < nlev; l++) {
        const Level& F = levels[l];
        const Level& C = levels[l + 1];
        const int nf = F.grid().numberOfNodes(), nc = C.grid().numberOfNodes();
        Vector<double> xf = random_vector(rng, nf, 0), xc = random_vector(rng, nc, 0);
        std::vector<Vector<double>> outs;
        for (const Op& op : ops) {
            Vector<double> a(op.up ? nf : nc), b(op.up ? nf : nc);
            for (int k = 0; k < a.size(); k++)
                a[k] = b[k] = -7.25;
            GMGPolarVerifAccess::transfer(*g, op.which, op.up ? l + 1 : l, a, op.up ? xc : xf);
            if (op.up)
                (I.*op.fn)(C, F, b, xc);
            else
                (I.*op.fn)(F, C, b, xf);
            bool same = true;
            for (int k = 0; k < a.size(); k++)
                same = same && std::memcmp(&a[k], &b[k], sizeof(double)) == 0;
            c.obs.require("solver_wrapper_is_the_interpolation_operator", same, std::string(op.name) + "/" + mode);
            outs.push_back(a);
        }
        // adjointness through the wrappers: <R xf, xc> = <xf, P xc> for the standard and the extrapolated pair
        auto dot = [](const Vector<double>& a, const Vector<double>& b) {
            long double s = 0, m = 0;
            for (int k = 0; k < a.size(); k++) {
                s += (long double)a[k] * b[k];
                m += fabsl((long double)a[k] * b[k]);
            }
            return std::make_pair(s, m);
        };
        for (int pair = 0; pair < 2; pair++) {
            const Vector<double>& P = outs[pair == 0 ? 0 : 3];
            const Vector<double>& R = outs[pair == 0 ? 1 : 4];
            auto a = dot(R, xc), b = dot(xf, P);
            long double scale = std::max(a.second, b.second);
            c.obs.check("solver_pair_adjoint", scale > 0 ? (double)(fabsl(a.first - b.first) / scale) : 0.0, std::string(pair ? "extrapolated/" : "standard/") + mode);
        }
    }
    JObj sig;
    sig.i("extrap", cfg.extrapolation).str("history", HN[history]).i("levels", nlev).b("fmg", cfg.fmg).i("threads", cfg.threads).num("reduction", cfg.thread_reduction).b("dirbc", cfg.dirbc);
    c.obs.top.obj("sig", sig);
    c.obs.top.b("nontrivial", nlev >= 2);
}

int main(int argc, char** argv) { return driver_main(argc, argv, "C08", run_case); }
