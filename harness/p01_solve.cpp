// C01: solve() converges within the iteration budget, and a reported convergence is true.
#include "common/driver.h"
#include "common/indep_residual.h"
#include "common/solver_kit.h"

static void run_case(CaseCtx& c)
{
    Rng& rng = c.rng;
    SolverConfig cfg;
    cfg.ps = random_solver_problem(rng, true, true);
    if (cfg.ps.prob == P_REFINED && rng.coin(0.5)) // keep Refined at ~1/8 of the cases
        cfg.ps.prob = rng.range(0, 2);
    cfg.R0 = rng.pick({1e-5, 1e-5, 1e-8, 1e-3, 0.1});
    bool small = rng.coin(0.15); // below 17x32: only the "a reported stop is true" half is judged
    int szr = rng.range(0, 9);
    cfg.nr_exp = small ? 3 : (szr <= 5 ? 4 : 5);
    cfg.ntheta_exp = -1;
    cfg.divideBy2 = (!small && szr == 9) ? 1 : 0;
    if (c.thorough() && !small && szr == 8 && rng.coin(0.3)) {
        cfg.nr_exp = 5;
        cfg.divideBy2 = 2; // 129 x 256
    }
    cfg.aniso = (!small && rng.coin(0.25)) ? rng.pick({2, 3}) : 0;
    cfg.dirbc = rng.coin();
    cfg.strategy = rng.range(0, 1);
    if (cfg.strategy == 1) {
        cfg.cache_prof = rng.coin();
        cfg.cache_geo = rng.coin();
    }
    cfg.extrapolation = rng.pick({0, 0, 0, 1, 1, 1, 3, 3, 2});
    cfg.cycle = rng.range(0, 2);
    cfg.fmg = rng.coin(0.4);
    cfg.fmg_cycle = rng.range(0, 2);
    cfg.fmg_iters = rng.range(0, 3);
    cfg.pre = rng.range(1, 3);
    cfg.post = rng.range(1, 3);
    cfg.maxLevels = rng.pick({-1, -1, -1, 2, 3});
    cfg.norm = rng.range(0, 2);
    cfg.maxIterations = 150;
    int tolk = rng.range(0, 3);
    cfg.abs_tol = tolk == 1 ? -1.0 : (tolk == 3 ? 1e-10 : 1e-8);
    cfg.rel_tol = tolk == 2 ? -1.0 : (tolk == 3 ? 1e-10 : 1e-8);
    cfg.threads = rng.pick({1, 1, 4});
    if (cfg.threads > 1)
        cfg.thread_reduction = rng.pick({1.0, 0.5, 0.3}); // fewer threads on coarser levels
    cfg.with_exact = true;
    bool cli_route = rng.coin(0.5);
    // recorded witness of the open finding F16 (fixed configuration): reproduces it on every run
    const bool witness_f16 = c.arg("witness", "") == "F16";
    if (witness_f16) {
        cfg = SolverConfig();
        cfg.ps.Rmax = 1.3;
        cfg.ps.geom = G_SHAFRANOV;
        cfg.ps.p1 = 0.3;
        cfg.ps.p2 = 0.2;
        cfg.ps.prob = P_POLAR_R6;
        cfg.ps.prof = F_ZONI;
        cfg.ps.alpha_jump = documented_alpha_jump(F_ZONI, 1.3);
        cfg.R0 = 0.1;
        cfg.nr_exp = 4;
        cfg.ntheta_exp = -1;
        cfg.divideBy2 = 2; // 65 x 128
        cfg.aniso = 0;
        cfg.dirbc = true;
        cfg.strategy = 1;
        cfg.cache_prof = cfg.cache_geo = true;
        cfg.extrapolation = 0;
        cfg.cycle = 0;
        cfg.fmg = false;
        cfg.pre = cfg.post = 1;
        cfg.maxLevels = -1;
        cfg.norm = 0;
        cfg.maxIterations = 150;
        cfg.abs_tol = 1e-8;
        cfg.rel_tol = 1e-8;
        cfg.threads = 1;
        cfg.with_exact = true;
        cli_route = false;
        c.obs.params.str("witness", "F16");
    }
    cfg.describe(c.obs.params);
    c.obs.params.str("route", cli_route ? "cli" : "api");
    c.announce(std::string("ex") + std::to_string(cfg.extrapolation) + "/cycle" + std::to_string(cfg.cycle) + (cfg.fmg ? "/fmg" : "/nofmg"));

    // history: in 20% of the pointer-route cases the judged solve is the second one on the object; the first one ran with
    // other solve-time options (norm type, cycle, FMG cycle/iterations, loose tolerances) -- the stop test and the
    // reported factor of a solve refer to this solve only
    const bool after_earlier_solve = !cli_route && rng.coin(0.2) && !witness_f16;
    SolverConfig first = cfg;
    if (after_earlier_solve) {
        first.norm = (cfg.norm + rng.range(1, 2)) % 3;
        first.cycle = rng.range(0, 2);
        first.fmg_iters = rng.range(0, 3);
        first.fmg_cycle = rng.range(0, 2);
        first.abs_tol = rng.pick({1e-2, 1e-4, -1.0});
        first.rel_tol = rng.pick({1e-2, 1e-4});
        first.maxIterations = rng.pick({2, 4, 30});
    }
    // process history: in 15% of the cases another solver object (same options, one refinement finer, two cycles) has been
    // set up, solved and destroyed in this process before -- nothing of it may survive in the library
    const bool prior_object = !witness_f16 && cfg.nr_exp + cfg.divideBy2 <= 5 && rng.coin(0.15);
    if (prior_object) {
        SolverConfig prior = cfg;
        prior.divideBy2 = cfg.divideBy2 + 1;
        prior.maxIterations = 2;
        auto g0 = prior.make_api();
        g0->setup();
        g0->solve();
    }
    c.obs.params.str("history", after_earlier_solve ? "second-solve-after-other-solve-options" : "first-solve").b("finer_object_solved_before_in_this_process", prior_object);
    std::unique_ptr<GMGPolar> g = cli_route ? cfg.make_cli() : (after_earlier_solve ? first.make_api() : cfg.make_api());
    g->setup();
    if (after_earlier_solve) {
        g->solve();
        g->residualNormType(static_cast<ResidualNormType>(cfg.norm));
        g->multigridCycle(static_cast<MultigridCycleType>(cfg.cycle));
        g->FMG_iterations(cfg.fmg_iters);
        g->FMG_cycle(static_cast<MultigridCycleType>(cfg.fmg_cycle));
        g->absoluteTolerance(cfg.abs_tol);
        g->relativeTolerance(cfg.rel_tol);
        g->maxIterations(cfg.maxIterations);
    }
    g->solve();
    const PolarGrid& grid = g->grid();
    const int n = grid.numberOfNodes();
    const int its = g->numberOfIterations();
    const double rho = its > 0 ? g->meanResidualReductionFactor() : 0.0;
    const int nlev = GMGPolarVerifAccess::number_of_levels(*g);
    c.obs.params.i("nr", grid.nr()).i("ntheta", grid.ntheta()).i("levels", nlev);
    c.obs.info.i("iterations", its).num("reported_reduction_factor", rho);
    const bool in_rate_set = grid.nr() >= 17 && grid.ntheta() >= 32 && cfg.extrapolation != 2;
    std::string cls = std::string("ex") + std::to_string(cfg.extrapolation) + "/" + (cfg.cycle == 0 ? "V" : (cfg.cycle == 1 ? "W" : "F")) + (cfg.fmg ? "/fmg" : "/nofmg") +
                      (cfg.pre == 1 && cfg.post == 1 ? "/s11" : "/s-more") + (cfg.dirbc ? "/dirbc" : "/across") + (cfg.R0 >= 0.05 ? "/annulus" : "/disk") + "/" + prob_name(cfg.ps.prob) + "/" + geom_name(cfg.ps.geom);

    bool finite = true;
    const Vector<double>& u = g->solution();
    for (int k = 0; k < n; k++)
        finite = finite && std::isfinite(u[k]);
    c.obs.require("solution_finite", finite, cls);

    // Is the requested tolerance above the rounding floor of a residual evaluation, eps * || |A||u| + |f| || ? (A relative
    // tolerance of 1e-10 on an already tiny FMG start residual, or R0 = 1e-8 with entries ~1/R0, can sit below it; such a
    // tolerance cannot be met by any iteration and the case is not judged for convergence.)
    IndepResidual ir(grid, cfg.ps, cfg.dirbc, cfg.extrapolation);
    bool achievable = true;
    ld floor_x1000 = 0;
    {
        // magnitude of the entries from the manufactured solution, not from the returned iterate: a diverged iterate would
        // inflate its own floor and hide the divergence
        Vector<double> uscale(n);
        {
            auto ex = make_exact(cfg.ps);
            for (int i = 0; i < grid.nr(); i++)
                for (int j = 0; j < grid.ntheta(); j++) {
                    double r = grid.radius(i), t = grid.theta(j);
                    uscale[grid.index(i, j)] = ex->exact_solution(r, t, std::sin(t), std::cos(t));
                }
        }
        // ... but where the manufactured solution vanishes (Refined near the origin, entries ~ 1/R0) the iterate carries the
        // discretisation error, and its rounding floor is what a residual evaluation really has: use the iterate while it is
        // bounded by 1e3 max|u_exact| (coarse grids: the discrete solution itself can be 10x off)
        {
            double mex = 0, mu = 0;
            bool fin = true;
            for (int k = 0; k < n; k++) {
                mex = std::max(mex, std::fabs(uscale[k]));
                mu  = std::max(mu, std::fabs(u[k]));
                fin = fin && std::isfinite(u[k]);
            }
            if (fin && mu <= 1e3 * mex)
                for (int k = 0; k < n; k++)
                    uscale[k] = std::max(std::fabs(uscale[k]), std::fabs(u[k]));
        }
        std::vector<ld> Au, absAu;
        ir.A->apply(uscale, Au, &absAu);
        std::vector<ld> sc(absAu.size());
        for (size_t k = 0; k < sc.size(); k++)
            sc[k] = absAu[k] + fabsl(ir.f[k]);
        ld floor_abs = 1e3L * 2.2e-16L * 2.0L * IndepResidual::norm(sc, cfg.norm);
        Vector<double> z(n);
        assign(z, 0.0);
        ld n0 = IndepResidual::norm(ir.residual(z), cfg.norm); // zero-start residual as the reference magnitude
        bool rel_ok = cfg.rel_tol > 0 && (ld)cfg.rel_tol * n0 >= floor_abs && !cfg.fmg;
        bool abs_ok = cfg.abs_tol > 0 && (ld)cfg.abs_tol >= floor_abs;
        achievable  = rel_ok || abs_ok;
        floor_x1000 = floor_abs;
        c.obs.info.num("rounding_floor_x1000", (double)floor_abs).b("tolerance_achievable", achievable);
    }
    // (1) converges within the budget with a mean reduction factor below one
    if (in_rate_set && achievable) {
        c.obs.require("converged_within_budget", its < cfg.maxIterations, cls);
        if (its > 0)
            c.obs.check("mean_reduction_factor", rho, cls);
    }
    // (2) a reported stop is true: recompute the stop quantity independently
    std::vector<ld> r_final = ir.residual(u);
    ld nrm = IndepResidual::norm(r_final, cfg.norm);
    // start vector: zero, or the FMG start from a twin object that runs no iteration
    Vector<double> u0(n);
    assign(u0, 0.0);
    if (cfg.fmg) {
        SolverConfig twin = cfg;
        twin.maxIterations = 0;
        twin.with_exact = false;
        auto g0 = twin.make_api();
        g0->setup();
        g0->solve();
        u0 = g0->solution();
    }
    ld nrm0 = IndepResidual::norm(ir.residual(u0), cfg.norm);
    c.obs.info.num("indep_final_norm", (double)nrm).num("indep_initial_norm", (double)nrm0);
    bool early = its < cfg.maxIterations;
    if (early && finite) {
        // the library stopped because rel <= rel_tol or abs <= abs_tol; the independent norms must meet one of them
        double best = INFINITY;
        if (cfg.rel_tol > 0 && nrm0 > 0)
            best = std::min(best, (double)(nrm / nrm0) / cfg.rel_tol);
        if (cfg.abs_tol > 0)
            best = std::min(best, (double)nrm / cfg.abs_tol);
        if (its == 0 && cfg.rel_tol > 0)
            best = std::min(best, 1.0 / cfg.rel_tol); // relative norm of the start is 1 by definition
        c.obs.check("stop_is_true", best, cls + "/" + (cfg.norm == 0 ? "l2" : (cfg.norm == 1 ? "weighted" : "inf")));
        // (3) the reported mean reduction factor describes this solve
        // (only where the final residual is well above the rounding floor of its own evaluation)
        if (its > 0 && nrm0 > 0 && nrm > floor_x1000) {
            double indep_rho = std::pow((double)(nrm / nrm0), 1.0 / its);
            c.obs.check("reported_factor_vs_independent", std::fabs(rho - indep_rho) / indep_rho, cls);
        }
    }
    JObj sig;
    sig.str("geom", geom_name(cfg.ps.geom)).str("prob", prob_name(cfg.ps.prob)).str("prof", prof_name(cfg.ps.prof)).b("dirbc", cfg.dirbc);
    sig.str("strategy", cfg.strategy ? (std::string("give") + char('0' + cfg.cache_prof + 2 * cfg.cache_geo)) : "take").i("extrap", cfg.extrapolation).i("cycle", cfg.cycle);
    sig.str("fmg", cfg.fmg ? ("fmg" + std::to_string(cfg.fmg_cycle) + "x" + std::to_string(cfg.fmg_iters)) : "off").i("levels", nlev).i("norm", cfg.norm);
    sig.b("second_solve", after_earlier_solve);
    c.obs.top.obj("sig", sig);
    c.obs.top.b("nontrivial", its >= 2 && nrm0 > 0);
    c.obs.info.b("in_rate_set", in_rate_set).b("early_stop", early);
}

int main(int argc, char** argv) { return driver_main(argc, argv, "C01", run_case); }
