// C13: a solver object can be reused -- after every solve in a random history the reported tuple equals that of a fresh object.
#include "common/driver.h"
#include "common/solver_kit.h"
#include <cstring>

struct Outcome {
    Vector<double> u;
    int its = -1;
    double rho = 0;
    bool has_err = false;
    double e2 = 0, einf = 0;
    int n = 0;
    std::vector<double> rnorms;                      // residual norm recorded before every cycle (guarded hook)
    std::vector<std::pair<double, double>> errs;     // exact errors recorded before every cycle
};

static Outcome observe(GMGPolar& g, const SolverConfig& cfg)
{
    Outcome o;
    o.u   = g.solution();
    o.n   = o.u.size();
    o.its = g.numberOfIterations();
    o.rho = o.its > 0 ? g.meanResidualReductionFactor() : 0.0;
    if (cfg.with_exact) {
        auto a = g.exactErrorWeightedEuclidean();
        auto b = g.exactErrorInfinity();
        o.has_err = a.has_value() && b.has_value();
        if (o.has_err) {
            o.e2   = *a;
            o.einf = *b;
        }
    }
    o.rnorms = GMGPolarVerifAccess::residual_norms(g);
    o.errs   = GMGPolarVerifAccess::exact_errors(g);
    return o;
}
static bool same_bits(double a, double b) { return std::memcmp(&a, &b, sizeof(double)) == 0; }

static void mutate_solve_options(Rng& rng, SolverConfig& c, std::string& what)
{
    switch (rng.range(0, 8)) {
    case 8: c.norm = (c.norm + rng.range(1, 2)) % 3; what = "norm"; break; // always another norm type
    case 0: c.maxIterations = rng.pick({1, 2, 3, 5, 150, 150}); what = "maxIterations"; break;
    case 1: c.rel_tol = rng.pick({1e-4, 1e-6, 1e-8, 1e-10, -1.0}); what = c.rel_tol > 0 ? "relativeTolerance" : "relativeTolerance-disabled"; break;
    case 2: c.abs_tol = rng.pick({1e-6, 1e-8, 1e-10, -1.0}); what = c.abs_tol > 0 ? "absoluteTolerance" : "absoluteTolerance-disabled"; break;
    case 3: c.norm = rng.range(0, 2); what = "norm"; break;
    case 4: c.cycle = rng.range(0, 2); what = "cycle"; break;
    case 5: c.pre = rng.range(1, 2); c.post = rng.range(1, 2); what = "smoothing-steps"; break;
    case 6: c.fmg_iters = rng.range(0, 3); c.fmg_cycle = rng.range(0, 2); what = "fmg-cycle-iterations"; break;
    default: // both tolerances off: a fixed number of cycles, no norm is computed at all
        c.rel_tol = -1.0;
        c.abs_tol = -1.0;
        c.maxIterations = rng.pick({2, 3, 5});
        what = "both-tolerances-disabled";
        break;
    }
}
static void mutate_setup_options(Rng& rng, SolverConfig& c, std::string& what)
{
    switch (rng.range(0, 7)) {
    case 7: { // another inner radius: same node counts, other radii and (usually) another smoother split
        double r0 = c.R0;
        while (r0 == c.R0)
            r0 = rng.pick({1e-5, 1e-3, 0.1, 0.3});
        c.R0 = r0;
        what = "R0";
        break;
    }
    case 0: c.divideBy2 = (c.divideBy2 + 1) % 2; what = "divideBy2"; break;
    case 1: c.nr_exp = c.nr_exp == 4 ? 3 : 4; what = "nr_exp"; break;
    case 2: c.extrapolation = rng.range(0, 3); what = "extrapolation"; break;
    case 3: c.fmg = !c.fmg; what = "FMG"; break;
    case 4:
        c.strategy = 1 - c.strategy;
        if (c.strategy == 0)
            c.cache_prof = c.cache_geo = true;
        what = "strategy";
        break;
    case 5: c.maxLevels = rng.pick({-1, 2, 3}); what = "maxLevels"; break;
    default: c.dirbc = !c.dirbc; what = "DirBC"; break;
    }
}

static void apply_changed(GMGPolar& g, const SolverConfig& a, const SolverConfig& b)
{
    if (a.divideBy2 != b.divideBy2) g.divideBy2(b.divideBy2);
    if (a.R0 != b.R0) g.R0(b.R0);
    if (a.nr_exp != b.nr_exp) g.nr_exp(b.nr_exp);
    if (a.extrapolation != b.extrapolation) g.extrapolation(static_cast<ExtrapolationType>(b.extrapolation));
    if (a.fmg != b.fmg) g.FMG(b.fmg);
    if (a.strategy != b.strategy) g.stencilDistributionMethod(b.strategy ? StencilDistributionMethod::CPU_GIVE : StencilDistributionMethod::CPU_TAKE);
    if (a.cache_prof != b.cache_prof) g.cacheDensityProfileCoefficients(b.cache_prof);
    if (a.cache_geo != b.cache_geo) g.cacheDomainGeometry(b.cache_geo);
    if (a.maxLevels != b.maxLevels) g.maxLevels(b.maxLevels);
    if (a.dirbc != b.dirbc) g.DirBC_Interior(b.dirbc);
    if (a.maxIterations != b.maxIterations) g.maxIterations(b.maxIterations);
    if (a.rel_tol != b.rel_tol) g.relativeTolerance(b.rel_tol);
    if (a.abs_tol != b.abs_tol) g.absoluteTolerance(b.abs_tol);
    if (a.norm != b.norm) g.residualNormType(static_cast<ResidualNormType>(b.norm));
    if (a.cycle != b.cycle) g.multigridCycle(static_cast<MultigridCycleType>(b.cycle));
    if (a.pre != b.pre) g.preSmoothingSteps(b.pre);
    if (a.post != b.post) g.postSmoothingSteps(b.post);
    if (a.fmg_iters != b.fmg_iters) g.FMG_iterations(b.fmg_iters);
    if (a.fmg_cycle != b.fmg_cycle) g.FMG_cycle(static_cast<MultigridCycleType>(b.fmg_cycle));
}

static void run_case(CaseCtx& c)
{
    Rng& rng = c.rng;
    SolverConfig cfg;
    cfg.ps = random_solver_problem(rng, true, true);
    cfg.R0 = rng.pick({1e-5, 1e-3, 0.1});
    cfg.nr_exp = rng.pick({3, 4, 4});
    cfg.ntheta_exp = -1;
    cfg.divideBy2 = rng.range(0, 1);
    cfg.dirbc = rng.coin();
    cfg.strategy = rng.range(0, 1);
    if (cfg.strategy == 1) {
        cfg.cache_prof = rng.coin();
        cfg.cache_geo = rng.coin();
    }
    cfg.extrapolation = rng.range(0, 3);
    cfg.fmg = rng.coin(0.4);
    cfg.fmg_iters = rng.range(0, 3);
    cfg.fmg_cycle = rng.range(0, 2);
    cfg.cycle = rng.range(0, 2);
    cfg.maxLevels = rng.pick({-1, -1, 2, 3, 6, 5}); // 5, 6: caps above what the small grids allow (as in convergence_order.cpp)
    cfg.maxIterations = rng.pick({150, 150, 3, 10});
    cfg.rel_tol = rng.pick({1e-6, 1e-8});
    cfg.abs_tol = 1e-8;
    cfg.norm = rng.range(0, 2);
    cfg.threads = 1;
    cfg.with_exact = rng.coin(0.8);
    bool refinement_loop = rng.coin(0.2); // the pattern of src/convergence_order.cpp
    int length = c.thorough() ? rng.range(3, 8) : rng.range(3, 5);
    cfg.describe(c.obs.params);
    c.obs.params.b("refinement_loop", refinement_loop).i("history_length", length);
    c.announce(std::string("ex") + std::to_string(cfg.extrapolation) + (cfg.fmg ? "/fmg" : "/nofmg"));

    std::unique_ptr<GMGPolar> g = cfg.make_api();
    SolverConfig prev_cfg = cfg;
    const bool full_reapply = rng.coin(0.25); // a quarter of the histories re-apply all options at every step
    c.obs.params.b("reapply_all_options_each_step", full_reapply);
    std::string hist;
    int resolves = 0, resetups = 0, steps = 0;
    std::string ex_seq = std::to_string(cfg.extrapolation);
    std::vector<std::string> transitions;
    bool did_setup = false;
    if (refinement_loop)
        cfg.divideBy2 = 0;
    for (int step = 0; step < length; step++) {
        std::string kind, what;
        bool need_setup = !did_setup;
        if (step == 0)
            kind = "first";
        else if (refinement_loop) {
            cfg.divideBy2 = std::min(step, 2);
            need_setup = true;
            kind = "refine";
            what = "divideBy2";
        }
        else {
            int r = rng.range(0, 9);
            if (r <= 2) {
                kind = "resolve-same";
            }
            else if (r <= 5) {
                kind = "resolve-solve-options";
                mutate_solve_options(rng, cfg, what);
            }
            else {
                kind = "resetup";
                mutate_setup_options(rng, cfg, what);
                if (rng.coin(0.4)) {
                    std::string w2;
                    mutate_solve_options(rng, cfg, w2);
                    what += "+" + w2;
                }
                need_setup = true;
            }
        }
        // Step 0 sets every option; later steps call only the setters of the options that changed, as an application
        // would (re-applying the whole option set before each setup() would mask an option that the library overwrote).
        if (step == 0 || full_reapply)
            cfg.apply_options(*g);
        else
            apply_changed(*g, prev_cfg, cfg);
        prev_cfg = cfg;
        if (need_setup) {
            g->setup();
            did_setup = true;
            if (step > 0)
                resetups++;
        }
        else
            resolves++;
        g->solve();
        Outcome reused = observe(*g, cfg);
        std::unique_ptr<GMGPolar> fresh = cfg.make_api();
        fresh->setup();
        fresh->solve();
        Outcome fr = observe(*fresh, cfg);
        steps++;
        hist += (hist.empty() ? "" : ",") + kind + (what.empty() ? "" : "(" + what + ")");
        if (kind != "first")
            transitions.push_back(kind);
        if (what.find("extrapolation") != std::string::npos)
            ex_seq += ">" + std::to_string(cfg.extrapolation);
        // classification of this step for the violation key
        std::string cls = kind + "/ex" + std::to_string(cfg.extrapolation) + (cfg.fmg ? "/fmg" : "/nofmg") + (fr.its == 0 ? "/zero-iterations" : "");
        bool same_size = reused.n == fr.n;
        c.obs.require("grid_size_matches_fresh", same_size, cls);
        bool same_u = same_size;
        double maxdiff = 0;
        if (same_size)
            for (int k = 0; k < fr.n; k++) {
                if (!same_bits(reused.u[k], fr.u[k]))
                    same_u = false;
                maxdiff = std::max(maxdiff, std::fabs(reused.u[k] - fr.u[k]));
            }
        c.obs.require("solution_equals_fresh", same_u, cls);
        c.obs.require("iterations_equal_fresh", reused.its == fr.its, cls);
        if (fr.its > 0)
            c.obs.require("reduction_factor_equals_fresh", same_bits(reused.rho, fr.rho), cls);
        if (cfg.with_exact) {
            c.obs.require("error_presence_equals_fresh", reused.has_err == fr.has_err, cls);
            if (reused.has_err && fr.has_err)
                c.obs.require("exact_errors_equal_fresh", same_bits(reused.e2, fr.e2) && same_bits(reused.einf, fr.einf), cls);
        }
        {
            // the recorded histories themselves (lengths and every entry, bit for bit): a norm that is scaled or
            // typed by an earlier set-up shows here even when the stop test happens to agree
            bool same_r = reused.rnorms.size() == fr.rnorms.size(), same_e = reused.errs.size() == fr.errs.size();
            for (size_t k = 0; same_r && k < fr.rnorms.size(); k++)
                same_r = same_bits(reused.rnorms[k], fr.rnorms[k]);
            for (size_t k = 0; same_e && k < fr.errs.size(); k++)
                same_e = same_bits(reused.errs[k].first, fr.errs[k].first) && same_bits(reused.errs[k].second, fr.errs[k].second);
            c.obs.require("residual_history_equals_fresh", same_r, cls);
            c.obs.require("error_history_equals_fresh", same_e, cls);
        }
        c.obs.info.num("last_solution_maxdiff", maxdiff);
    }
    c.obs.params.str("history", hist);
    JObj sig;
    sig.str("extrapolation_sequence", ex_seq).b("fmg", cfg.fmg).str("strategy", cfg.strategy ? "give" : "take").b("refinement_loop", refinement_loop);
    std::string tk;
    for (auto& t : transitions)
        tk += t.substr(0, 9) + ";";
    sig.str("transitions", tk);
    c.obs.top.obj("sig", sig);
    c.obs.top.b("nontrivial", (resolves >= 1 && resetups >= 1) || refinement_loop);
    c.obs.info.i("resolves", resolves).i("resetups", resetups).i("solves", steps);
}

int main(int argc, char** argv) { return driver_main(argc, argv, "C13", run_case); }
