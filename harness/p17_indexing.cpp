// C17: grid node numbering is a bijection consistent with geometry and periodicity.
// Generates grids (coordinate arrays of every accepted size, parametric constructor, every kind of splitting radius),
// runs the real PolarGrid queries exhaustively on each grid and on every grid of its coarsening chain, and MEASURES
// mismatch counts / scaled spacing errors against values computed here from the coordinate arrays alone.
#include "common/driver.h"
#include "common/gen_grid.h"
#include "common/c17_probe.h"
#include <array>
#include <climits>
#include <limits>

namespace
{
// ------------------------------------------------------------------------------------------------ sub-check tallies
enum SC {
    ACCESSORS,
    BIJECTION,
    MI_INV_IDX,
    IDX_INV_MI,
    FORMS,
    WRAP,
    PERIODIC,
    PARTITION,
    AUTOMIN,
    ADJ,
    DIAG,
    COARSEN,
    NSC
};
const char* SC_NAME[NSC] = {"accessors_match_coordinates", "index_is_bijection",       "multiindex_inverts_index",
                            "index_inverts_multiindex",    "index_forms_agree",        "wrap_theta_index",
                            "unwrapped_index_periodic",    "split_partitions_nodes",   "auto_split_min_sizes",
                            "adjacent_neighbors",          "diagonal_neighbors",       "coarsening_keeps_every_second"};
enum NC { RSPACING, ASPACING, NDIST, NNC };
const char* NC_NAME[NNC] = {"radial_spacing_vs_coordinates", "angular_spacing_vs_coordinates", "neighbor_distances_vs_coordinates"};

struct Tally {
    long long n[NSC] = {}, bad[NSC] = {};
    const char* key[NSC] = {};
    long long nn[NNC] = {};
    double worst[NNC];
    const char* nkey[NNC] = {};
    Tally()
    {
        for (auto& w : worst)
            w = -1.0;
    }
    inline void t(SC s, bool ok, const char* site)
    {
        n[s]++;
        if (!ok) {
            if (!bad[s])
                key[s] = site;
            bad[s]++;
        }
    }
    inline void v(NC s, double value, const char* site)
    {
        nn[s]++;
        if (std::isnan(worst[s]))
            return;
        if (std::isnan(value) || value > worst[s]) {
            worst[s] = value;
            nkey[s]  = site;
        }
    }
    // hand the measurements of one grid to the observation log (value of a boolean sub-check = number of mismatches).
    // The witness key names the call site and only those input classes that matter for the sub-check:
    // wrap path (bit-mask / modulo) for everything periodic, split class for numbering and partition, level for accessors.
    void flush(Obs& obs, const std::string& wrap_path, const std::string& split_cls, const std::string& level)
    {
        for (int s = 0; s < NSC; s++)
            if (n[s] > 0) {
                std::string pre;
                switch (s) {
                case ACCESSORS: pre = level + "/"; break;
                case WRAP:
                case PERIODIC: pre = wrap_path + "/"; break;
                case BIJECTION:
                case MI_INV_IDX:
                case IDX_INV_MI:
                case FORMS:
                case PARTITION: pre = split_cls + "-split/"; break;
                default: break;
                }
                obs.check(SC_NAME[s], (double)bad[s], bad[s] ? pre + (key[s] ? key[s] : "-") : std::string());
                obs.counts[SC_NAME[s]] += n[s] - 1;
            }
        for (int s = 0; s < NNC; s++)
            if (nn[s] > 0) {
                std::string pre = s == ASPACING ? wrap_path + "/" : std::string();
                obs.check(NC_NAME[s], worst[s], (worst[s] != 0.0) ? pre + (nkey[s] ? nkey[s] : "-") : std::string());
                obs.counts[NC_NAME[s]] += nn[s] - 1;
            }
    }
};

const double EPS = std::numeric_limits<double>::epsilon();

// difference of two coordinates, rounded once to double (the correctly rounded value of the exact difference)
inline double cdiff(double hi, double lo)
{
    volatile double d = hi - lo;
    return d;
}
inline double serr(double actual, double expected, double scale)
{
    if (std::isnan(actual))
        return actual;
    return std::fabs(actual - expected) / scale;
}

inline int refwrap(long long u, int n)
{
    long long m = u % (long long)n;
    if (m < 0)
        m += n;
    return (int)m;
}

std::string nr_class(int nr)
{
    if (nr <= 5)
        return std::to_string(nr);
    if (nr <= 8)
        return "6-8";
    if (nr <= 16)
        return "9-16";
    if (nr <= 32)
        return "17-32";
    return "33+";
}
bool is_pow2(int n) { return n > 0 && (n & (n - 1)) == 0; }
std::string ntheta_class(int n)
{
    if (n <= 4)
        return std::to_string(n); // 2: both angular neighbours coincide; 4: smallest coarsenable
    if (n <= 16)
        return "6-16";
    if (n <= 64)
        return "18-64";
    if (n <= 256)
        return "66-256";
    return "258+";
}

std::string split_class(const std::vector<double>& R, const std::optional<double>& s)
{
    if (!s.has_value())
        return "auto";
    double v = *s;
    if (v < R.front())
        return "below-R0";
    if (v == R.front())
        return "at-R0";
    if (v > R.back())
        return "above-Rmax";
    if (v == R.back())
        return "at-Rmax";
    if (std::binary_search(R.begin(), R.end(), v))
        return "at-node";
    return "between";
}

// ------------------------------------------------------------------------------------------ all queries on one grid
// R, A: the coordinate arrays the grid was built from (A has ntheta+1 entries); split: the requested splitting radius.
// Returns false when the grid's sizes contradict the arrays (nothing else can be evaluated safely then).
bool check_grid(const PolarGrid& g, const std::vector<double>& R, const std::vector<double>& A, const std::optional<double>& split,
                Rng& rng, Tally& T, JObj* info)
{
    const int nr = (int)R.size();
    const int n  = (int)A.size() - 1;
    // ---- accessors against the coordinate arrays
    T.t(ACCESSORS, g.nr() == nr, "nr");
    T.t(ACCESSORS, g.ntheta() == n, "ntheta");
    T.t(ACCESSORS, (long long)g.numberOfNodes() == (long long)nr * n, "numberOfNodes");
    T.t(ACCESSORS, g.radii() == R, "radii()");
    T.t(ACCESSORS, g.angles() == A, "angles()");
    if (g.nr() != nr || g.ntheta() != n || g.numberOfNodes() != nr * n)
        return false;
    for (int i = 0; i < nr; i++)
        T.t(ACCESSORS, g.radius(i) == R[i], "radius(i)");
    for (int j = 0; j <= n; j++)
        T.t(ACCESSORS, g.theta(j) == A[j], "theta(j)");
    const int N = nr * n;

    // ---- circle / radial split
    const int C = g.numberSmootherCircles(), L = g.lengthSmootherRadial();
    const long long CN = g.numberCircularSmootherNodes(), RN = g.numberRadialSmootherNodes();
    T.t(PARTITION, C >= 0 && C <= nr, "circles-out-of-range");
    T.t(PARTITION, L >= 0 && C + L == nr, "circles+length!=nr");
    T.t(PARTITION, CN == (long long)C * n, "circular-node-count");
    T.t(PARTITION, RN == (long long)L * n, "radial-node-count");
    T.t(PARTITION, CN + RN == N, "node-counts-do-not-add-up");
    const double ssr = g.smootherSplittingRadius();
    for (int i = 0; i < nr; i++) {
        bool in_circle = i < C;
        if (split.has_value())
            T.t(PARTITION, in_circle ? R[i] <= *split : R[i] >= *split, "requested-radius-does-not-separate");
        T.t(PARTITION, in_circle ? R[i] <= ssr : R[i] >= ssr, "reported-radius-does-not-separate");
    }
    if (!split.has_value()) {
        if (nr >= 6)
            T.t(AUTOMIN, C >= 3 && L >= 3, "nr>=6");
        else if (nr == 5)
            T.t(AUTOMIN, C >= 2 && L >= 3, "nr=5");
    }
    if (info) {
        info->i("circles", C).i("radial_length", L);
        if (split.has_value() && C > 0 && C < nr)
            info->b("split_equals_node", *split == R[C]);
    }
    if (!(C >= 0 && C <= nr && L >= 0 && C + L == nr))
        return false;

    // ---- (i_r, i_theta) -> node index: forms agree, range, injective; inverse; side of the split
    std::vector<int> table((size_t)N, -1);
    std::vector<unsigned char> seen((size_t)N, 0);
    for (int i = 0; i < nr; i++) {
        const bool circ = i < C;
        for (int j = 0; j < n; j++) {
            const int a = g.index(i, j);
            const int b = g.fastIndex(i, j);
            const int c = g.index(MultiIndex(i, j));
            T.t(FORMS, a == b, circ ? "fastIndex-vs-index/circle-section" : "fastIndex-vs-index/radial-section");
            T.t(FORMS, a == c, circ ? "index(MultiIndex)-vs-index/circle-section" : "index(MultiIndex)-vs-index/radial-section");
            table[(size_t)i * n + j] = a;
            const bool inrange       = a >= 0 && a < N;
            T.t(BIJECTION, inrange, circ ? "out-of-range/circle-section" : "out-of-range/radial-section");
            if (!inrange)
                continue;
            T.t(BIJECTION, seen[a] == 0, circ ? "duplicate/circle-section" : "duplicate/radial-section");
            if (seen[a] < 255)
                seen[a]++;
            int ri = -1, ti = -1;
            g.multiIndex(a, ri, ti);
            T.t(MI_INV_IDX, ri == i && ti == j, circ ? "multiIndex(int,int&,int&)/circle-section" : "multiIndex(int,int&,int&)/radial-section");
            MultiIndex m = g.multiIndex(a);
            T.t(MI_INV_IDX, m[0] == i && m[1] == j, circ ? "multiIndex(int)/circle-section" : "multiIndex(int)/radial-section");
            T.t(PARTITION, (a < CN) == circ, circ ? "circle-node-numbered-outside-[0,circles*ntheta)" : "radial-node-numbered-inside-[0,circles*ntheta)");
        }
    }
    long long missing = 0;
    for (int k = 0; k < N; k++)
        missing += seen[k] == 0;
    T.t(BIJECTION, missing == 0, "not-onto");

    // ---- node index -> (i_r, i_theta) and back
    for (int k = 0; k < N; k++) {
        const bool circ = k < CN;
        int ri = -1, ti = -1;
        g.multiIndex(k, ri, ti);
        MultiIndex m = g.multiIndex(k);
        T.t(FORMS, m[0] == ri && m[1] == ti, circ ? "multiIndex-forms/circle-section" : "multiIndex-forms/radial-section");
        const bool ok1 = ri >= 0 && ri < nr && ti >= 0 && ti < n;
        T.t(IDX_INV_MI, ok1, circ ? "multiIndex(int,int&,int&)-out-of-range/circle-section" : "multiIndex(int,int&,int&)-out-of-range/radial-section");
        if (ok1) {
            T.t(IDX_INV_MI, g.index(ri, ti) == k, circ ? "index(int,int)/circle-section" : "index(int,int)/radial-section");
            T.t(IDX_INV_MI, g.fastIndex(ri, ti) == k, circ ? "fastIndex/circle-section" : "fastIndex/radial-section");
        }
        const bool ok2 = m[0] >= 0 && m[0] < nr && m[1] >= 0 && m[1] < n;
        T.t(IDX_INV_MI, ok2, circ ? "multiIndex(int)-out-of-range/circle-section" : "multiIndex(int)-out-of-range/radial-section");
        if (ok2)
            T.t(IDX_INV_MI, g.index(m) == k, circ ? "index(MultiIndex)/circle-section" : "index(MultiIndex)/radial-section");
    }

    // ---- periodic wrap of the angular index
    std::vector<int> far; // sampled far offsets
    for (int s = 0; s < 48; s++) {
        long long u = (long long)(rng.next() % ((1ULL << 31) + 1)) - (1LL << 30); // [-2^30, 2^30]
        far.push_back((int)u);
    }
    for (int s = 0; s < 8; s++) { // multiples of n far away, +-1
        long long k = (long long)(rng.next() % (uint64_t)((1LL << 30) / n)) + 1;
        far.push_back((int)(k * n));
        far.push_back((int)(-k * n));
        far.push_back((int)(k * n - 1));
        far.push_back((int)(-k * n + 1));
    }
    const int special[] = {1 << 30, -(1 << 30), (1 << 30) - 1, -(1 << 30) + 1, (1 << 30) + 1, -(1 << 30) - 1, INT_MAX, INT_MIN, INT_MAX - 1, INT_MIN + 1};
    for (int u : special)
        far.push_back(u);
    // range class of an unwrapped index (part of the witness key)
    enum { IN_RANGE, NEAR_NEG, NEAR_POS, FAR_NEG, FAR_POS, INTMIN, INTMAX, NRANGE };
    auto rclass = [n](long long u) -> int {
        if (u >= 0 && u < n)
            return IN_RANGE;
        if (u >= INT_MAX - 1)
            return INTMAX;
        if (u <= INT_MIN + 1)
            return INTMIN;
        if (u < 0)
            return u >= -5LL * n ? NEAR_NEG : FAR_NEG;
        return u <= 5LL * n ? NEAR_POS : FAR_POS;
    };
    static const char* const K_WRAP[NRANGE]  = {"in-range", "near-negative", "near-positive", "far-negative", "far-positive", "INT_MIN", "INT_MAX"};
    static const char* const K_IDX_C[NRANGE] = {"index/in-range/circle-section", "index/near-negative/circle-section", "index/near-positive/circle-section", "index/far-negative/circle-section",
                                                "index/far-positive/circle-section", "index/INT_MIN/circle-section", "index/INT_MAX/circle-section"};
    static const char* const K_IDX_R[NRANGE] = {"index/in-range/radial-section", "index/near-negative/radial-section", "index/near-positive/radial-section", "index/far-negative/radial-section",
                                                "index/far-positive/radial-section", "index/INT_MIN/radial-section", "index/INT_MAX/radial-section"};
    static const char* const K_SKIP[NRANGE]  = {"not-called:wrapThetaIndex-out-of-range/in-range", "not-called:wrapThetaIndex-out-of-range/near-negative", "not-called:wrapThetaIndex-out-of-range/near-positive",
                                                "not-called:wrapThetaIndex-out-of-range/far-negative", "not-called:wrapThetaIndex-out-of-range/far-positive", "not-called:wrapThetaIndex-out-of-range/INT_MIN",
                                                "not-called:wrapThetaIndex-out-of-range/INT_MAX"};
    static const char* const K_ASP[NRANGE]   = {"angularSpacing/in-range", "angularSpacing/near-negative", "angularSpacing/near-positive", "angularSpacing/far-negative", "angularSpacing/far-positive",
                                                "angularSpacing/INT_MIN", "angularSpacing/INT_MAX"};
    // all offsets that are handed to the library: exhaustive in +-5n, then the far ones
    std::vector<int> near5, near3;
    for (long long u = -5LL * n; u <= 5LL * n; u++)
        near5.push_back((int)u);
    for (long long u = -2LL * n - 1; u <= 3LL * n; u++)
        near3.push_back((int)u);
    // index(i,u) and angularSpacing(u) assert on the wrapped value: they are only called for offsets whose
    // wrapThetaIndex() result is a valid index (otherwise the missing evaluation is recorded as a mismatch)
    auto wrap_valid = [&](int u) {
        const int w = g.wrapThetaIndex(u);
        return w >= 0 && w < n;
    };
    for (const std::vector<int>* list : {&near5, &far})
        for (int u : *list)
            T.t(WRAP, g.wrapThetaIndex(u) == refwrap(u, n), K_WRAP[rclass(u)]);

    // index(i, u) for unwrapped u, on the rows around the split, both boundaries and a random one
    {
        std::vector<int> rows = {0, nr - 1, C - 1, C, rng.range(0, nr - 1)};
        std::sort(rows.begin(), rows.end());
        rows.erase(std::unique(rows.begin(), rows.end()), rows.end());
        for (int i : rows) {
            if (i < 0 || i >= nr)
                continue;
            const bool circ = i < C;
            for (const std::vector<int>* list : {&near3, &far})
                for (int u : *list) {
                    const int rc = rclass(u);
                    if (!wrap_valid(u)) {
                        T.t(PERIODIC, false, K_SKIP[rc]);
                        continue;
                    }
                    T.t(PERIODIC, g.index(i, u) == table[(size_t)i * n + refwrap(u, n)], circ ? K_IDX_C[rc] : K_IDX_R[rc]);
                }
        }
    }

    // ---- spacings against the coordinate arrays (scaled by the rounding unit of the coordinates)
    for (int i = 0; i + 1 < nr; i++)
        T.v(RSPACING, serr(g.radialSpacing(i), cdiff(R[i + 1], R[i]), EPS * R[i + 1]), "radialSpacing(i)");
    const double ASCALE = EPS * 2.0 * M_PI;
    for (const std::vector<int>* list : {&near3, &far})
        for (int u : *list) {
            const int rc = rclass(u);
            if (!wrap_valid(u)) {
                T.t(PERIODIC, false, K_SKIP[rc]);
                continue;
            }
            const int w = refwrap(u, n);
            T.v(ASPACING, serr(g.angularSpacing(u), cdiff(A[w + 1], A[w]), ASCALE), (rc == IN_RANGE && w == n - 1) ? "angularSpacing/last-interval" : K_ASP[rc]);
        }

    // ---- neighbours and neighbour distances of every node
    // expected neighbour = the node whose coordinates are the adjacent entries of the coordinate arrays
    auto nb_ok = [&](int got, int ei, int ej) -> bool {
        if (ei < 0 || ei >= nr)
            return got == -1;
        if (got < 0 || got >= N || got != table[(size_t)ei * n + ej])
            return false;
        MultiIndex m = g.multiIndex(got);
        if (!(m[0] >= 0 && m[0] < nr && m[1] >= 0 && m[1] < n))
            return false;
        Point p = g.polarCoordinates(m);
        return p[0] == R[ei] && p[1] == A[ej];
    };
    for (int i = 0; i < nr; i++) {
        const bool lo = i == 0, hi = i == nr - 1;
        for (int j = 0; j < n; j++) {
            const int jm = j == 0 ? n - 1 : j - 1, jp = j == n - 1 ? 0 : j + 1;
            const bool wl = j == 0, wh = j == n - 1;
            MultiIndex pos(i, j);
            Point pc = g.polarCoordinates(pos);
            T.t(ADJ, pc[0] == R[i] && pc[1] == A[j], "polarCoordinates");
            std::array<std::pair<int, int>, space_dimension> nb;
            g.adjacentNeighborsOf(pos, nb);
            T.t(ADJ, nb_ok(nb[0].first, i - 1, j), lo ? "inward/at-inner-boundary" : "inward");
            T.t(ADJ, nb_ok(nb[0].second, i + 1, j), hi ? "outward/at-outer-boundary" : "outward");
            T.t(ADJ, nb_ok(nb[1].first, i, jm), wl ? "theta-minus/wrap" : "theta-minus");
            T.t(ADJ, nb_ok(nb[1].second, i, jp), wh ? "theta-plus/wrap" : "theta-plus");
            std::array<std::pair<int, int>, space_dimension> dg;
            g.diagonalNeighborsOf(pos, dg);
            T.t(DIAG, nb_ok(dg[0].first, i - 1, jm), lo ? "inward-theta-minus/at-inner-boundary" : (wl ? "inward-theta-minus/wrap" : "inward-theta-minus"));
            T.t(DIAG, nb_ok(dg[0].second, i + 1, jm), hi ? "outward-theta-minus/at-outer-boundary" : (wl ? "outward-theta-minus/wrap" : "outward-theta-minus"));
            T.t(DIAG, nb_ok(dg[1].first, i - 1, jp), lo ? "inward-theta-plus/at-inner-boundary" : (wh ? "inward-theta-plus/wrap" : "inward-theta-plus"));
            T.t(DIAG, nb_ok(dg[1].second, i + 1, jp), hi ? "outward-theta-plus/at-outer-boundary" : (wh ? "outward-theta-plus/wrap" : "outward-theta-plus"));
            std::array<std::pair<double, double>, space_dimension> d;
            g.adjacentNeighborDistances(pos, d);
            T.v(NDIST, serr(d[0].first, lo ? 0.0 : cdiff(R[i], R[i - 1]), EPS * R[i]), lo ? "inward/at-inner-boundary" : "inward");
            T.v(NDIST, serr(d[0].second, hi ? 0.0 : cdiff(R[i + 1], R[i]), EPS * (hi ? R[i] : R[i + 1])), hi ? "outward/at-outer-boundary" : "outward");
            T.v(NDIST, serr(d[1].first, cdiff(A[jm + 1], A[jm]), ASCALE), wl ? "theta-minus/wrap" : "theta-minus");
            T.v(NDIST, serr(d[1].second, cdiff(A[j + 1], A[j]), ASCALE), wh ? "theta-plus/wrap" : "theta-plus");
        }
    }
    return true;
}

bool can_coarsen(int nr, int n)
{
    // coarseningGrid's own precondition (nr odd, ntheta even) and a result the constructor accepts:
    // at least 2 radii, at least 2 angles, every kept angle keeps its antipodal partner (ntheta/2 even).
    return nr >= 3 && nr % 2 == 1 && n % 4 == 0;
}

struct Source {
    bool parametric = false;
    // arrays
    GridSpec gs;
    // parametric
    double R0 = 0, Rmax = 0, refinement_radius = 0;
    int nr_exp = 0, ntheta_exp = 0, divideBy2 = 0;
    std::optional<double> split;
    PolarGrid make() const
    {
        if (parametric)
            return PolarGrid(R0, Rmax, nr_exp, ntheta_exp, refinement_radius, 0, divideBy2, split);
        return PolarGrid(gs.radii, gs.angles, gs.split);
    }
};
} // namespace

static void run_case(CaseCtx& c)
{
    Rng& rng          = c.rng;
    const bool big    = c.thorough();
    const int nr_max  = big ? 192 : 40;
    const int nth_max = big ? 768 : 96;
    const int cap     = big ? 80000 : 6000;

    // ------------------------------------------------------------------------------------------------ generate
    Source src;
    src.parametric = rng.coin(0.1);
    double Rmax    = rng.coin(0.25) ? rng.loguniform(1e-3, 1e3) : rng.pick({1.0, 1.3, 2.0});
    double R0      = pick_R0(rng, Rmax);
    int nr = 0, nth = 0;
    std::string scls;
    if (!src.parametric) {
        double u = rng.u01();
        if (u < 0.04)
            nr = 2;
        else if (u < 0.08)
            nr = 3;
        else if (u < 0.11)
            nr = 4;
        else if (u < 0.14)
            nr = 5;
        else if (u < 0.22)
            nr = rng.range(6, 8);
        else if (u < 0.50)
            nr = (1 << rng.range(1, big ? 7 : 5)) + 1; // 3, 5, 9, 17, 33, (65, 129): coarsenable to the end
        else
            nr = rng.range(6, nr_max);
        double v = rng.u01();
        if (v < 0.40)
            nth = 1 << rng.range(1, big ? 10 : 7);
        else if (v < 0.70)
            nth = 4 * rng.range(1, nth_max / 4);
        else
            nth = 2 * rng.range(1, nth_max / 2);
        while ((long long)nr * nth > cap && nth > 2)
            nth = is_pow2(nth) ? nth / 2 : std::max(2, (nth / 4) * 2);
        if (nth < 2)
            nth = 2;
        if (nth % 2)
            nth++;
        GridSpec& g = src.gs;
        g.radii     = gen_radii(rng, nr, R0, Rmax, g.radial_kind);
        g.angles    = gen_angles(rng, nth, g.angular_kind);
        const std::vector<double>& R = g.radii;
        double w    = rng.u01();
        const double inf = std::numeric_limits<double>::infinity();
        if (w < 0.30)
            g.split = std::nullopt;
        else if (w < 0.40) {
            switch (rng.range(0, 4)) {
            case 0: g.split = R0 * rng.uniform(0.01, 0.999); break;
            case 1: g.split = 0.0; break;
            case 2: g.split = -1.0; break;
            case 3: g.split = -inf; break;
            default: g.split = std::nextafter(R.front(), 0.0); break;
            }
        }
        else if (w < 0.45)
            g.split = R.front();
        else if (w < 0.75) {
            int k   = rng.range(1, nr - 1);
            double t = rng.coin(0.2) ? rng.pick({1e-12, 0.5, 1.0 - 1e-12}) : rng.uniform(0.0, 1.0);
            g.split = R[k - 1] + t * (R[k] - R[k - 1]);
        }
        else if (w < 0.85)
            g.split = R[rng.range(0, nr - 1)];
        else if (w < 0.90)
            g.split = R.back();
        else {
            switch (rng.range(0, 3)) {
            case 0: g.split = Rmax * rng.uniform(1.0001, 3.0); break;
            case 1: g.split = std::nextafter(R.back(), inf); break;
            case 2: g.split = 1e300; break;
            default: g.split = inf; break;
            }
        }
        scls         = split_class(R, g.split);
        g.split_kind = scls;
        g.describe(c.obs.params, nr * nth <= 400);
        c.obs.params.str("source", "arrays");
    }
    else {
        src.R0         = R0;
        src.Rmax       = Rmax;
        src.nr_exp     = rng.range(1, big ? 6 : 4);
        src.ntheta_exp = rng.coin(0.3) ? -1 : rng.range(0, big ? 8 : 6);
        src.divideBy2  = rng.range(0, 2);
        if (src.ntheta_exp == 0 && src.divideBy2 == 0)
            src.divideBy2 = 1;
        auto sizes = [&](int& a, int& b) {
            a = ((1 << src.nr_exp) << src.divideBy2) + 1;
            b = (src.ntheta_exp < 0 ? (1 << (src.nr_exp + 1)) : (1 << src.ntheta_exp)) << src.divideBy2;
        };
        sizes(nr, nth);
        while ((long long)nr * nth > cap && src.divideBy2 > 0 && !(src.ntheta_exp == 0 && src.divideBy2 == 1)) {
            src.divideBy2--;
            sizes(nr, nth);
        }
        src.refinement_radius = rng.uniform(R0, Rmax); // unused by the uniform division (anisotropic_factor = 0)
        double w = rng.u01();
        if (w < 0.4) {
            src.split = std::nullopt;
            scls      = "auto";
        }
        else if (w < 0.55) {
            src.split = R0 * rng.uniform(0.01, 0.999);
            scls      = "below-R0";
        }
        else if (w < 0.85) {
            src.split = rng.uniform(R0, Rmax);
            scls      = "between";
        }
        else {
            src.split = Rmax * rng.uniform(1.0001, 3.0);
            scls      = "above-Rmax";
        }
        c.obs.params.str("source", "parametric").num("R0", R0).num("Rmax", Rmax).i("nr_exp", src.nr_exp).i("ntheta_exp", src.ntheta_exp).i("divideBy2", src.divideBy2).i("nr", nr).i("ntheta", nth).str("split_kind", scls);
        if (src.split.has_value())
            c.obs.params.num("split", *src.split);
    }
    const std::string route = src.parametric ? "parametric" : "direct";
    const std::string gcls  = "nr=" + nr_class(nr) + "/" + scls + "-split";
    c.announce(gcls);

    JObj sig;
    sig.str("nr_class", nr_class(nr)).b("ntheta_pow2", is_pow2(nth)).str("ntheta_class", ntheta_class(nth)).str("split", scls).str("source", src.parametric ? "parametric" : "arrays");

    // ------------------------------------------------------------------- construct (first in a child: it may abort)
    ProbeResult pr = probe_in_child([&] { PolarGrid g = src.make(); (void)g.numberOfNodes(); }, c.out);
    c.obs.require("construction_survives", pr.survived, gcls + "/" + route + "/" + pr.how);
    long long nodes_total = 0;
    int levels = 0;
    bool nontrivial = false;
    if (!pr.survived) {
        c.obs.info.str("construction_ended", pr.how).str("construction_stderr", pr.text);
    }
    else {
        // value semantics: in half of the cases the checked object is a COPY whose source has since been overwritten with
        // another grid and destroyed (a copy owns everything it reads)
        const bool checked_is_copy = rng.coin(0.5);
        PolarGrid g = [&]() -> PolarGrid {
            if (!checked_is_copy)
                return src.make();
            auto source = std::make_unique<PolarGrid>(src.make());
            PolarGrid copy = *source;
            std::vector<double> r2 = {0.05, 0.3, 0.45, 0.9, 1.7, 2.0}, a2;
            for (int j = 0; j <= 12; j++)
                a2.push_back(2.0 * M_PI * j / 12.0);
            a2.back() = 2.0 * M_PI;
            *source = PolarGrid(r2, a2);
            source.reset();
            return copy;
        }();
        c.obs.params.b("checked_object_is_copy_of_destroyed_source", checked_is_copy);
        std::vector<double> R, A;
        std::optional<double> split;
        if (src.parametric) {
            R     = g.radii();
            A     = g.angles();
            split = src.split;
        }
        else {
            R     = src.gs.radii;
            A     = src.gs.angles;
            split = src.gs.split;
        }
        const std::string level = src.parametric ? "parametric" : "fine";
        c.announce(std::string(is_pow2((int)A.size() - 1) ? "bit-mask" : "modulo") + "/" + level);
        {
            Tally T;
            bool ok = check_grid(g, R, A, split, rng, T, &c.obs.info);
            T.flush(c.obs, is_pow2((int)A.size() - 1) ? "bit-mask" : "modulo", scls, level);
            levels = 1;
            nodes_total += (long long)R.size() * ((long long)A.size() - 1);
            int C      = g.numberSmootherCircles();
            nontrivial = ok && C > 0 && C < g.nr() && g.numberOfNodes() >= 12;
            if (!ok)
                c.obs.info.b("sizes_contradict_arrays", true);
        }
        // ------------------------------------------------------------ coarsening chain down to the smallest grid
        PolarGrid cur = g;
        while (can_coarsen((int)R.size(), (int)A.size() - 1)) {
            const int cnr = ((int)R.size() + 1) / 2, cn = ((int)A.size() - 1) / 2;
            const std::string ccls = "nr=" + nr_class(cnr) + "/auto-split";
            ProbeResult cp = probe_in_child([&] { PolarGrid cg = coarseningGrid(cur); (void)cg.numberOfNodes(); }, c.out);
            c.obs.require("construction_survives", cp.survived, ccls + "/via-coarsening/" + cp.how);
            if (!cp.survived) {
                c.obs.info.str("coarsening_ended", cp.how).str("coarsening_stderr", cp.text).i("coarsening_ended_at_nr", cnr).i("coarsening_ended_at_ntheta", cn);
                break;
            }
            PolarGrid cg = coarseningGrid(cur);
            std::vector<double> R2((size_t)cnr), A2((size_t)cn + 1);
            for (int i = 0; i < cnr; i++)
                R2[i] = R[2 * i];
            for (int j = 0; j <= cn; j++)
                A2[j] = A[2 * j];
            Tally T;
            T.t(COARSEN, cg.nr() == cnr, "nr");
            T.t(COARSEN, cg.ntheta() == cn, "ntheta");
            if (cg.nr() == cnr && cg.ntheta() == cn) {
                for (int i = 0; i < cnr; i++)
                    T.t(COARSEN, cg.radius(i) == R[2 * i], i == 0 ? "inner-boundary" : (i == cnr - 1 ? "outer-boundary" : "radii"));
                for (int j = 0; j <= cn; j++)
                    T.t(COARSEN, cg.theta(j) == A[2 * j], j == 0 ? "first-angle" : (j == cn ? "last-angle" : "angles"));
                T.t(COARSEN, cg.radii().size() == (size_t)cnr && cg.radii().front() == R.front(), "inner-boundary");
                T.t(COARSEN, cg.radii().size() == (size_t)cnr && cg.radii().back() == R.back(), "outer-boundary");
                T.t(COARSEN, cg.angles().size() == (size_t)cn + 1 && cg.angles().front() == A.front(), "first-angle");
                T.t(COARSEN, cg.angles().size() == (size_t)cn + 1 && cg.angles().back() == A.back(), "last-angle");
            }
            c.announce(std::string(is_pow2(cn) ? "bit-mask" : "modulo") + "/coarse");
            bool ok          = check_grid(cg, R2, A2, std::nullopt, rng, T, nullptr);
            T.flush(c.obs, is_pow2(cn) ? "bit-mask" : "modulo", "auto", "coarse");
            if (!ok)
                break;
            levels++;
            nodes_total += (long long)cnr * cn;
            R.swap(R2);
            A.swap(A2);
            cur = cg;
            // the copy just assigned must answer like its source after the source is gone (checked in the next round / below)
        }
        // the last copy-assigned grid of the chain, after its source went out of scope: spacings still consistent with its own nodes
        if (levels >= 2) {
            bool ok = true;
            for (int i = 0; i + 1 < cur.nr(); i++)
                ok = ok && cur.radialSpacing(i) == cur.radius(i + 1) - cur.radius(i);
            for (int j = 0; j < cur.ntheta(); j++)
                ok = ok && std::fabs(cur.angularSpacing(j) - (cur.theta(j + 1 <= cur.ntheta() - 1 ? j + 1 : 0) + (j + 1 == cur.ntheta() ? 2.0 * M_PI : 0.0) - cur.theta(j))) <= 4e-16 * 2.0 * M_PI;
            c.obs.require("copy_assigned_grid_consistent_after_source_destroyed", ok, "coarsening-chain");
        }
    }
    sig.i("levels", levels > 4 ? 4 : levels);
    c.obs.top.obj("sig", sig);
    c.obs.top.b("nontrivial", nontrivial);
    c.obs.info.i("levels", levels).i("nodes_total", nodes_total);
}

int main(int argc, char** argv) { return driver_main(argc, argv, "C17", run_case); }
