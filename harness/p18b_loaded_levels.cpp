// C18 (addition): grids loaded from files with an ntheta that is not a power of two (12, 20, 24, 28, 40, 56, ...) -- the level
// count setup() reports must be admitted by the grid: setup() succeeds whenever two levels are admissible, every level is the
// every-second-node subgrid of the finer one and meets the minimal sizes. (Generated grids are always 2^k in theta.)
#include "common/driver.h"
#include "common/gen_grid.h"
#include "common/solver_kit.h"
#include <filesystem>
#include <unistd.h>

static void run_case(CaseCtx& c)
{
    Rng& rng = c.rng;
    int nr = rng.pick({5, 9, 13, 17, 21, 25, 33, 41, 49, 65});
    int nt = rng.pick({8, 12, 16, 20, 24, 28, 32, 36, 40, 48, 56, 64, 80, 96});
    GridSpec gs;
    double R0 = rng.pick({1e-5, 1e-3, 0.1});
    gs.radii  = gen_radii(rng, nr, R0, 1.3, gs.radial_kind, rng.range(0, 2));
    gs.angles = gen_angles(rng, nt, gs.angular_kind, rng.range(0, 1));
    int cap   = rng.pick({-1, -1, 2, 3, 9});
    gs.describe(c.obs.params);
    c.obs.params.i("maxLevels", cap);
    // independent admissible depth: coarsen while the coarser grid keeps >= 5 radii (nr odd) and an even ntheta >= 4
    int L = 1, a = nr, b = nt;
    while (a % 2 == 1 && (a + 1) / 2 >= 5 && b % 2 == 0 && b / 2 >= 4 && (b / 2) % 2 == 0) {
        a = (a + 1) / 2;
        b = b / 2;
        L++;
    }
    int expected = cap > 0 ? std::min(cap, L) : L;
    c.obs.params.i("admissible_levels", L);
    std::string cls = std::string("ntheta-") + ((nt & (nt - 1)) == 0 ? "pow2" : (nt % 3 == 0 ? "3x2^k" : "odd-factor")) + "/cap" + std::to_string(cap);
    c.announce(cls);
    std::string dir = c.arg("scratch", "/verif/.runs/C18/loaded") + "/p" + std::to_string((long)getpid());
    std::filesystem::create_directories(dir);
    std::string fr = dir + "/radii.txt", ft = dir + "/angles.txt";
    PolarGrid(gs.radii, gs.angles).writeToFile(fr, ft, 18);

    SolverConfig cfg;
    cfg.ps = random_solver_problem(rng, false, true);
    cfg.R0 = R0;
    cfg.maxLevels = cap;
    cfg.dirbc = rng.coin();
    cfg.extrapolation = rng.pick({0, 1});
    cfg.maxIterations = 3;
    cfg.with_exact = false;
    auto g = cfg.make_api();
    g->load_grid_file(true);
    g->file_grid_radii(fr);
    g->file_grid_angles(ft);
    bool threw = false;
    std::string what;
    try {
        g->setup();
    }
    catch (const std::exception& e) {
        threw = true;
        what  = e.what();
    }
    c.obs.params.b("setup_threw", threw).str("what", what.substr(0, 80));
    if (expected >= 2) {
        c.obs.require("loaded_grid_setup_succeeds", !threw, cls);
    }
    else {
        c.obs.require("too_few_levels_rejected", threw, cls);
    }
    if (!threw) {
        int nlev = GMGPolarVerifAccess::number_of_levels(*g);
        std::vector<Level>& lv = GMGPolarVerifAccess::levels(*g);
        c.obs.require("reported_levels_admissible", nlev >= 2 && nlev <= L && (cap <= 0 || nlev <= cap) && (int)lv.size() == nlev, cls);
        bool sub = true, minsize = true;
        for (int d = 1; d < (int)lv.size(); d++) {
            const PolarGrid& f  = lv[d - 1].grid();
            const PolarGrid& cg = lv[d].grid();
            sub = sub && cg.nr() == (f.nr() + 1) / 2 && cg.ntheta() == f.ntheta() / 2;
            for (int i = 0; sub && i < cg.nr(); i++)
                sub = sub && cg.radius(i) == f.radius(2 * i);
            for (int j = 0; sub && j < cg.ntheta(); j++)
                sub = sub && cg.theta(j) == f.theta(2 * j);
            minsize = minsize && cg.nr() >= 5 && cg.ntheta() >= 4 && cg.ntheta() % 2 == 0;
        }
        c.obs.require("coarse_level_is_subgrid", sub, cls);
        c.obs.require("levels_meet_minimal_sizes", minsize, cls);
        // the loaded finest grid equals what was written (18 digits)
        const PolarGrid& f0 = lv[0].grid();
        double worst = 0;
        if (f0.nr() == nr && f0.ntheta() == nt) {
            for (int i = 0; i < nr; i++)
                worst = std::max(worst, std::fabs(f0.radius(i) - gs.radii[i])); // absolute: 18 FIXED decimals are written
            for (int j = 0; j <= nt; j++)
                worst = std::max(worst, std::fabs(f0.theta(j) - gs.angles[j]));
        }
        else
            worst = 1.0;
        c.obs.check("loaded_grid_matches_written", worst, cls);
        bool finite = true;
        try {
            g->solve();
            const Vector<double>& u = g->solution();
            for (int k = 0; k < u.size(); k++)
                finite = finite && std::isfinite(u[k]);
        }
        catch (const std::exception& e) {
            finite = false;
        }
        c.obs.require("solve_on_loaded_grid_finite", finite, cls);
        c.obs.info.i("levels", nlev);
    }
    JObj sig;
    sig.i("nr", nr).i("ntheta", nt).i("cap", cap).b("threw", threw);
    c.obs.top.obj("sig", sig);
    c.obs.top.b("nontrivial", !threw);
    std::error_code ec;
    std::filesystem::remove_all(dir, ec);
}

int main(int argc, char** argv) { return driver_main(argc, argv, "C18", run_case); }
