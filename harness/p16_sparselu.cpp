// C16: SparseLUSolver solves every system that admits an LU factorisation without pivoting, whatever the storage
// order / stored zeros / constructor of the CSR container, for several right-hand sides in a row.
//
// Per case: a generated (or harvested PDE) matrix, a dense long-double LU without pivoting as the reference (gives
// L, U, structural fill-in, row-wise growth, pivot cancellation), the real CSR container + SparseLUSolver executed in
// a forked child (a library exit() / crash is an observation), and the row-wise scaled residual
//      |b_i - sum_j A_ij x_j| / ( (|L| |U| |x|)_i + |b_i| )
// which the backward error analysis of LU without pivoting bounds by a small multiple of n * unit round-off,
// independent of row scaling and of growth.  The driver measures; oracles/c16.py judges.
#include "common/driver.h"
#include "common/kit.h"
#include "common/dense.h"
#include "common/c16_fork.h"
#include <algorithm>
#include <numeric>
#include <set>
#include <tuple>

typedef std::vector<std::vector<std::pair<int, double>>> Rows; // per row: (column, value) in storage order

// ---------------------------------------------------------------------------------------------------------------
// access to the CSR matrices assembled by the library (private members) -- explicit instantiation may name them
template <class Tag, typename Tag::type M>
struct C16Rob {
    friend typename Tag::type c16_get(Tag) { return M; }
};
#define C16_ACCESS(TAG, CLASS, MEMBER)                  \
    struct TAG {                                        \
        typedef SparseMatrixCSR<double> CLASS::*type;   \
        friend type c16_get(TAG);                       \
    };                                                  \
    template struct C16Rob<TAG, &CLASS::MEMBER>;
C16_ACCESS(C16DsGive, DirectSolverGiveCustomLU, solver_matrix_)
C16_ACCESS(C16DsTake, DirectSolverTakeCustomLU, solver_matrix_)
C16_ACCESS(C16SmGive, SmootherGive, inner_boundary_circle_matrix_)
C16_ACCESS(C16SmTake, SmootherTake, inner_boundary_circle_matrix_)

static Rows rows_of(const SparseMatrixCSR<double>& M)
{
    Rows r(M.rows());
    for (int i = 0; i < M.rows(); i++)
        for (int k = 0; k < M.row_nz_size(i); k++)
            r[i].emplace_back(M.row_nz_index(i, k), M.row_nz_entry(i, k));
    return r;
}

// A matrix assembled by the real code on a generated grid/geometry/profile.
static void harvest_pde(Rng& rng, int size, SparseMatrixCSR<double>& M, std::string& source, JObj& params)
{
    int which = rng.range(0, 3);
    GridOpts go;
    go.Rmax = rng.pick({1.0, 1.3, 2.0});
    if (which <= 1) { // direct solver: n = nr * ntheta
        if (size == 2) {
            go.nr_min = 11, go.nr_max = 17, go.nth_min = 20, go.nth_max = 28;
        }
        else if (size == 1) {
            go.nr_min = 7, go.nr_max = 10, go.nth_min = 12, go.nth_max = 20;
        }
        else {
            go.nr_min = 5, go.nr_max = 8, go.nth_min = 4, go.nth_max = 10;
        }
    }
    else { // smoother: n = ntheta
        go.nr_min = 5, go.nr_max = 7, go.nth_multiple = 4;
        go.nth_min = size == 2 ? 300 : size == 1 ? 84 : 4, go.nth_max = size == 2 ? 440 : size == 1 ? 200 : 64;
    }
    GridSpec gs    = gen_grid(rng, go);
    ProblemSpec ps = random_problem(rng, go.Rmax, true);
    bool dirbc     = rng.coin();
    bool take      = (which == 1 || which == 3);
    bool cp = take ? true : rng.coin(), cg = take ? true : rng.coin();
    gs.describe(params);
    ps.describe(params);
    params.b("DirBC_Interior", dirbc);
    ProblemObjs po(ps);
    PolarGrid fine = gs.make();
    Hierarchy H;
    H.build(fine, po, cp, cg, 1);
    Level& L = *H.levels[0];
    switch (which) {
    case 0: {
        DirectSolverGiveCustomLU s(L.grid(), L.levelCache(), *po.geo, *po.prof, dirbc, 1);
        M      = s.*c16_get(C16DsGive());
        source = "direct-give";
        break;
    }
    case 1: {
        DirectSolverTakeCustomLU s(L.grid(), L.levelCache(), *po.geo, *po.prof, dirbc, 1);
        M      = s.*c16_get(C16DsTake());
        source = "direct-take";
        break;
    }
    case 2: {
        SmootherGive s(L.grid(), L.levelCache(), *po.geo, *po.prof, dirbc, 1);
        M      = s.*c16_get(C16SmGive());
        source = "smoother-give";
        break;
    }
    default: {
        SmootherTake s(L.grid(), L.levelCache(), *po.geo, *po.prof, dirbc, 1);
        M      = s.*c16_get(C16SmTake());
        source = "smoother-take";
        break;
    }
    }
}

// ---------------------------------------------------------------------------------------------------------------
// synthetic matrices
enum Pattern { PT_DIAG, PT_RANDOM, PT_BANDED, PT_ARROW, PT_BLOCK, PT_CYCLIC, PT_TRIANG, PT_LUPROD, PT_LUDYADIC, PT_PDE };
static const char* pattern_name(int p)
{
    static const char* n[] = {"diagonal", "random", "banded", "arrow", "block", "cyclic", "triangular", "lu-product", "lu-dyadic", "pde"};
    return n[p];
}

static std::vector<std::set<int>> gen_structure(Rng& rng, int n, int pt, std::string& variant)
{
    std::vector<std::set<int>> S(n);
    auto add = [&](int i, int j) {
        if (i != j && i >= 0 && j >= 0 && i < n && j < n)
            S[i].insert(j);
    };
    switch (pt) {
    case PT_DIAG: variant = "diag"; break;
    case PT_RANDOM: {
        double p = n <= 80 ? rng.loguniform(0.02, 0.8) : rng.loguniform(1.0 / n, 10.0 / n);
        bool sym = rng.coin(0.3);
        variant  = sym ? "sym-pattern" : "unsym-pattern";
        for (int i = 0; i < n; i++)
            for (int j = 0; j < n; j++)
                if (i != j && rng.coin(p)) {
                    add(i, j);
                    if (sym)
                        add(j, i);
                }
        break;
    }
    case PT_BANDED: {
        int w  = n > 100 ? 12 : 6;
        int kl = rng.range(0, std::min(n - 1, w)), ku = rng.range(0, std::min(n - 1, w));
        double q = rng.coin() ? 1.0 : rng.uniform(0.5, 1.0);
        variant  = "kl" + std::to_string(kl) + "ku" + std::to_string(ku);
        for (int i = 0; i < n; i++)
            for (int j = i - kl; j <= i + ku; j++)
                if (rng.coin(q))
                    add(i, j);
        break;
    }
    case PT_ARROW: {
        int kind = rng.range(0, 3);
        std::vector<int> hubs;
        if (kind == 0)
            hubs = {0}, variant = "first";
        else if (kind == 1)
            hubs = {n - 1}, variant = "last";
        else if (kind == 2)
            hubs = {0, n - 1}, variant = "both";
        else
            hubs = {rng.range(0, n - 1)}, variant = "middle";
        for (int h : hubs)
            for (int i = 0; i < n; i++) {
                add(h, i);
                add(i, h);
            }
        if (rng.coin())
            for (int i = 0; i + 1 < n; i++) {
                add(i, i + 1);
                add(i + 1, i);
            }
        break;
    }
    case PT_BLOCK: {
        variant = "blocks";
        int s   = 0;
        while (s < n) {
            int b = std::min(n - s, rng.range(1, 6));
            for (int i = s; i < s + b; i++)
                for (int j = s; j < s + b; j++)
                    if (rng.coin(0.9))
                        add(i, j);
            s += b;
        }
        double pc = rng.uniform(0.0, 0.5);
        for (int i = 0; i < n; i++)
            if (rng.coin(pc))
                add(i, rng.range(0, n - 1));
        break;
    }
    case PT_CYCLIC: {
        int w   = rng.range(1, 2);
        variant = "w" + std::to_string(w);
        for (int i = 0; i < n; i++)
            for (int d = 1; d <= w; d++) {
                add(i, ((i + d) % n + n) % n);
                add(i, ((i - d) % n + n) % n);
            }
        break;
    }
    default: { // PT_TRIANG
        bool lower = rng.coin();
        variant    = lower ? "lower" : "upper";
        double p   = n <= 80 ? rng.loguniform(0.03, 0.9) : rng.loguniform(1.0 / n, 10.0 / n);
        for (int i = 0; i < n; i++)
            for (int j = 0; j < n; j++)
                if ((lower ? j < i : j > i) && rng.coin(p))
                    add(i, j);
        break;
    }
    }
    return S;
}

static double offdiag_value(Rng& rng, int valkind)
{
    double v = 0;
    while (v == 0) {
        switch (valkind) {
        case 0: v = rng.normal(); break;
        case 1: v = rng.sign() * std::pow(10.0, rng.uniform(-3, 3)); break;
        default: v = rng.sign() * rng.range(1, 9); break;
        }
    }
    return v;
}

// strictly diagonally dominant (by rows or by columns), non-symmetric values
static Rows gen_dominant(Rng& rng, int n, const std::vector<std::set<int>>& S, JObj& params, std::string& valdesc)
{
    int valkind    = rng.range(0, 2);
    bool by_rows   = rng.coin(0.6);
    double margin  = rng.loguniform(1e-3, 3.0);
    bool pos_diag  = rng.coin();
    static const char* vk[] = {"normal", "wide", "integer"};
    valdesc = std::string(by_rows ? "row-dominant" : "column-dominant");
    params.str("values", vk[valkind]).str("dominance", by_rows ? "rows" : "columns").num("margin", margin);
    Rows rows(n);
    std::vector<double> sum(n, 0.0);
    for (int i = 0; i < n; i++)
        for (int j : S[i]) {
            double v = offdiag_value(rng, valkind);
            rows[i].emplace_back(j, v);
            sum[by_rows ? i : j] += std::fabs(v);
        }
    for (int i = 0; i < n; i++) {
        double d = sum[i] > 0 ? sum[i] * (1.0 + margin) : rng.loguniform(0.1, 10.0);
        if (!pos_diag && rng.coin())
            d = -d;
        rows[i].emplace_back(i, d);
    }
    return rows;
}

// A = L0 * U0 with sparse unit-lower L0 and upper U0 (non-vanishing leading minors by construction, not dominant).
// dyadic = true: all entries small dyadic rationals, so the product is exact, exact zeros appear, and some diagonal
// entries of A are made exactly zero (not stored / stored as 0) although the factorisation exists.
static Rows gen_luproduct(Rng& rng, int n, bool dyadic, JObj& params, int& zero_diagonals)
{
    std::vector<std::vector<std::pair<int, double>>> Lr(n), Ur(n); // strictly lower rows, upper rows incl. diagonal
    int per = rng.range(1, 3);
    bool local = rng.coin(0.6); // entries close to the diagonal (little fill) or anywhere (much fill)
    auto dy = [&](bool allow2) {
        static const double c[] = {0.25, 0.5, 1.0, 2.0};
        return rng.sign() * c[rng.range(allow2 ? 1 : 0, allow2 ? 3 : 2)];
    };
    for (int i = 0; i < n; i++) {
        std::set<int> cl, cu;
        for (int t = 0; t < per; t++) {
            if (i > 0 && rng.coin(0.8))
                cl.insert(local ? std::max(0, i - rng.range(1, 4)) : rng.range(0, i - 1));
            if (i < n - 1 && rng.coin(0.8))
                cu.insert(local ? std::min(n - 1, i + rng.range(1, 4)) : rng.range(i + 1, n - 1));
        }
        for (int j : cl)
            Lr[i].emplace_back(j, dyadic ? dy(false) : rng.uniform(-1, 1));
        Ur[i].emplace_back(i, dyadic ? dy(true) : rng.sign() * rng.uniform(0.5, 2.0));
        for (int j : cu)
            Ur[i].emplace_back(j, dyadic ? dy(true) : 0.7 * rng.normal());
    }
    zero_diagonals = 0;
    if (dyadic) {
        // choose u_kk = -sum_{j<k} l_kj u_jk where that sum is nonzero  =>  a_kk = 0 exactly, u_kk != 0
        double pz = rng.pick({0.0, 0.15, 0.5});
        for (int k = 1; k < n; k++) {
            double s = 0;
            for (auto& [j, l] : Lr[k])
                for (auto& [jj, u] : Ur[j])
                    if (jj == k)
                        s += l * u;
            if (s != 0 && std::fabs(s) <= 8 && rng.coin(pz)) {
                Ur[k][0].second = -s;
                zero_diagonals++;
            }
        }
    }
    params.i("factor_entries_per_row", per).b("factor_local", local);
    // product (exact for the dyadic class; rounded once per term otherwise)
    std::vector<std::map<int, ld>> P(n);
    for (int i = 0; i < n; i++) {
        for (auto& [j, u] : Ur[i])
            P[i][j] += (ld)u; // unit diagonal of L0
        for (auto& [k, l] : Lr[i])
            for (auto& [j, u] : Ur[k])
                P[i][j] += (ld)l * (ld)u;
    }
    Rows rows(n);
    for (int i = 0; i < n; i++)
        for (auto& [j, v] : P[i])
            if ((double)v != 0.0)
                rows[i].emplace_back(j, (double)v);
    return rows;
}

// ---------------------------------------------------------------------------------------------------------------
// reference: dense LU without pivoting in long double
struct RefLU {
    int n = 0;
    std::vector<ld> A, F;   // A: the matrix; F: L (strictly lower, unit diagonal implied) and U (upper) in place
    bool zero_pivot = false;
    long long fill = 0;     // positions that are zero in A and receive an update (structural fill-in)
    long long nnzL = 0, nnzU = 0; // off-diagonal nonzeros of the factors
    ld min_pivot_abs = INFINITY;
    ld growth = 0;          // max_i (|L||U|e)_i / (|A|e)_i
    ld cancel = 0;          // max_k (|L||U|)_kk / |u_kk|
    void factor()
    {
        F = A;
        std::vector<char> touched((size_t)n * n, 0);
        for (int i = 1; i < n && !zero_pivot; i++) {
            // row-by-row (same order of operations class as any LU; the reference keeps everything dense)
            for (int k = 0; k < i; k++) {
                ld a = F[(size_t)i * n + k];
                if (a == 0)
                    continue;
                ld p = F[(size_t)k * n + k];
                if (p == 0 || !std::isfinite((double)p)) {
                    zero_pivot = true;
                    break;
                }
                ld f                 = a / p;
                F[(size_t)i * n + k] = f;
                for (int j = k + 1; j < n; j++) {
                    ld u = F[(size_t)k * n + j];
                    if (u == 0)
                        continue;
                    if (A[(size_t)i * n + j] == 0 && !touched[(size_t)i * n + j]) {
                        touched[(size_t)i * n + j] = 1;
                        fill++;
                    }
                    F[(size_t)i * n + j] -= f * u;
                }
            }
        }
        for (int k = 0; k < n; k++) {
            ld p = F[(size_t)k * n + k];
            if (p == 0 || !std::isfinite((double)p))
                zero_pivot = true;
            min_pivot_abs = std::min(min_pivot_abs, fabsl(p));
        }
        if (zero_pivot)
            return;
        rowsumA.assign(n, 0);
        for (int i = 0; i < n; i++)
            for (int j = 0; j < n; j++) {
                rowsumA[i] += fabsl(A[(size_t)i * n + j]);
                if (j < i && F[(size_t)i * n + j] != 0)
                    nnzL++;
                if (j > i && F[(size_t)i * n + j] != 0)
                    nnzU++;
            }
        rowsumLU.assign(n, 0);
        std::vector<ld> usum(n, 0);
        for (int k = 0; k < n; k++)
            for (int j = k; j < n; j++)
                usum[k] += fabsl(F[(size_t)k * n + j]);
        for (int i = 0; i < n; i++) {
            ld s = usum[i];
            ld d = fabsl(F[(size_t)i * n + i]); // (|L||U|)_ii = |u_ii| + sum_{k<i} |l_ik||u_ki|
            for (int k = 0; k < i; k++) {
                ld l = fabsl(F[(size_t)i * n + k]);
                if (l == 0)
                    continue;
                s += l * usum[k];
                d += l * fabsl(F[(size_t)k * n + i]);
            }
            rowsumLU[i] = s;
            if (rowsumA[i] > 0)
                growth = std::max(growth, s / rowsumA[i]);
            else
                growth = INFINITY;
            cancel = std::max(cancel, d / fabsl(F[(size_t)i * n + i]));
        }
    }
    std::vector<ld> rowsumA, rowsumLU; // (|A|e)_i, (|L||U|e)_i
    // s = |L| (|U| |x|) + u * (|L||U|e) * max|x|
    // The second term (u = 2^-53) is a floor for rows whose first-order scale vanishes: where the exact factors have
    // exact zeros by cancellation (dyadic class, unit right-hand sides) the computed factors carry O(u) residues, and
    // the residual of such a row is an O(u^2) quantity that the first-order bound with the exact |L||U| does not cover.
    void scale_vector(const double* x, std::vector<ld>& s) const
    {
        ld xmax = 0;
        for (int j = 0; j < n; j++)
            xmax = std::max(xmax, fabsl((ld)x[j]));
        std::vector<ld> w(n, 0);
        for (int k = 0; k < n; k++)
            for (int j = k; j < n; j++)
                w[k] += fabsl(F[(size_t)k * n + j]) * fabsl((ld)x[j]);
        s.assign(n, 0);
        for (int i = 0; i < n; i++) {
            s[i] = w[i];
            for (int k = 0; k < i; k++)
                s[i] += fabsl(F[(size_t)i * n + k]) * w[k];
            s[i] += 0x1p-53L * rowsumLU[i] * xmax;
        }
    }
};

// ---------------------------------------------------------------------------------------------------------------
static const char* ORDER_NAMES[] = {"sorted", "reversed", "shuffled", "diag-first", "diag-last"};
static const char* CTOR_NAMES[]  = {"nz-per-row", "triplets", "arrays", "assembled"};
static const char* XFER_NAMES[]  = {"direct", "copy-ctor", "move-ctor", "copy-assign", "move-assign"};

static void run_case(CaseCtx& c)
{
    Rng& rng = c.rng;
    omp_set_num_threads(1);
    // ---- size and pattern
    int ncls = 0;
    {
        double u = rng.u01();
        if (c.thorough())
            ncls = u < 0.02 ? 0 : u < 0.05 ? 1 : u < 0.25 ? 2 : u < 0.55 ? 3 : u < 0.86 ? 4 : u < 0.96 ? 5 : 6;
        else
            ncls = u < 0.03 ? 0 : u < 0.08 ? 1 : u < 0.35 ? 2 : u < 0.68 ? 3 : u < 0.966 ? 4 : u < 0.996 ? 5 : 6;
    }
    static const char* NCLS[] = {"1", "2", "3-8", "9-30", "31-80", "81-200", "400"};
    auto ncls_of = [](int m) { return m <= 1 ? 0 : m == 2 ? 1 : m <= 8 ? 2 : m <= 30 ? 3 : m <= 80 ? 4 : m <= 200 ? 5 : 6; };
    int n = ncls == 0 ? 1 : ncls == 1 ? 2 : ncls == 2 ? rng.range(3, 8) : ncls == 3 ? rng.range(9, 30) : ncls == 4 ? rng.range(31, 80) : ncls == 5 ? rng.range(81, 200) : rng.range(380, 420);
    int pt;
    if (ncls <= 1)
        pt = rng.pick({(int)PT_RANDOM, (int)PT_RANDOM, (int)PT_TRIANG, (int)PT_DIAG, (int)PT_LUDYADIC, (int)PT_LUPROD});
    else if (ncls == 6)
        pt = rng.pick({(int)PT_RANDOM, (int)PT_BANDED, (int)PT_ARROW, (int)PT_BLOCK, (int)PT_CYCLIC, (int)PT_LUPROD, (int)PT_PDE, (int)PT_PDE});
    else {
        double u = rng.u01();
        pt = u < 0.02 ? PT_DIAG : u < 0.22 ? PT_RANDOM : u < 0.36 ? PT_BANDED : u < 0.48 ? PT_ARROW : u < 0.58 ? PT_BLOCK : u < 0.66 ? PT_CYCLIC : u < 0.72 ? PT_TRIANG : u < 0.82 ? PT_LUPROD : u < 0.92 ? PT_LUDYADIC : PT_PDE;
        if (pt == PT_PDE && ncls == 2)
            pt = PT_CYCLIC; // no PDE matrix that small except the 4-node inner circle; covered by ntheta=4 below
    }
    JObj& P = c.obs.params;
    std::string variant, valdesc;
    Rows rows;
    SparseMatrixCSR<double> assembled;
    bool have_assembled = false;
    int zero_diagonals  = 0;
    if (pt == PT_PDE) {
        JObj pde;
        harvest_pde(rng, ncls == 6 ? 2 : ncls == 5 ? 1 : 0, assembled, variant, pde);
        P.obj("pde", pde);
        rows           = rows_of(assembled);
        n              = (int)rows.size();
        have_assembled = true;
        valdesc        = "pde";
        ncls           = ncls_of(n);
    }
    else if (pt == PT_LUPROD || pt == PT_LUDYADIC) {
        rows    = gen_luproduct(rng, n, pt == PT_LUDYADIC, P, zero_diagonals);
        variant = zero_diagonals > 0 ? "zero-diagonal-entries" : "plain";
        valdesc = pt == PT_LUDYADIC ? "dyadic" : "real";
    }
    else {
        auto S = gen_structure(rng, n, pt, variant);
        rows   = gen_dominant(rng, n, S, P, valdesc);
    }
    // duplicates in a harvested matrix would make "the matrix" ambiguous: recorded, case skipped
    bool duplicates = false;
    for (auto& r : rows) {
        std::set<int> seen;
        for (auto& e : r)
            if (!seen.insert(e.first).second)
                duplicates = true;
    }
    // ---- storage decisions
    bool keep_assembled = have_assembled && rng.coin(0.5); // hand the library's own CSR object to the solver
    int rowscale_w      = 0, global_k = 0;
    std::string scale_cls = "none";
    if (!keep_assembled) {
        double u   = rng.u01();
        rowscale_w = u < 0.5 ? 0 : u < 0.75 ? 2 : 6;
        u          = rng.u01();
        if (u < 0.66)
            global_k = 0;
        else if (u < 0.92)
            global_k = (int)rng.sign() * rng.range(1, 8);
        else if (u < 0.95)
            global_k = -rng.range(13, 18);
        else
            global_k = rng.range(13, 18);
        scale_cls = std::string("rows1e") + std::to_string(rowscale_w) + "/" +
                    (global_k == 0 ? "g0" : global_k <= -13 ? "gtiny" : global_k >= 13 ? "ghuge" : global_k < 0 ? "gsmall" : "glarge");
        for (int i = 0; i < n; i++) {
            double d = std::pow(10.0, (rowscale_w ? rng.uniform(-rowscale_w, rowscale_w) : 0.0) + global_k);
            if (d != 1.0)
                for (auto& e : rows[i])
                    e.second *= d;
        }
    }
    // explicitly stored zeros (positions outside the pattern; for zero diagonal entries: stored as 0 or absent)
    bool store_zeros = !keep_assembled && rng.coin(0.4);
    long long stored_zeros = 0;
    if (store_zeros) {
        long long nnz = 0;
        for (auto& r : rows)
            nnz += (long long)r.size();
        long long want = std::max(1LL, (long long)(nnz * rng.uniform(0.05, 0.3)));
        std::vector<std::set<int>> have(n);
        for (int i = 0; i < n; i++)
            for (auto& e : rows[i])
                have[i].insert(e.first);
        // zero diagonal entries first
        for (int i = 0; i < n; i++)
            if (!have[i].count(i) && rng.coin(0.5)) {
                rows[i].emplace_back(i, 0.0);
                have[i].insert(i);
                stored_zeros++;
            }
        for (long long t = 0; t < 4 * want && stored_zeros < want; t++) {
            int i = rng.range(0, n - 1), j = rng.range(0, n - 1);
            if (have[i].count(j))
                continue;
            rows[i].emplace_back(j, rng.coin(0.2) ? -0.0 : 0.0);
            have[i].insert(j);
            stored_zeros++;
        }
        store_zeros = stored_zeros > 0;
    }
    stored_zeros = 0; // counted on the final entries (includes zeros assembled by the library itself)
    for (auto& r : rows)
        for (auto& e : r)
            if (e.second == 0.0)
                stored_zeros++;
    // ordering inside each row
    int order = keep_assembled ? -1 : rng.range(0, 4);
    if (!keep_assembled)
        for (int i = 0; i < n; i++) {
            auto& r = rows[i];
            std::sort(r.begin(), r.end(), [](auto& a, auto& b) { return a.first < b.first; });
            auto move_diag = [&](bool front) {
                auto it = std::find_if(r.begin(), r.end(), [&](auto& e) { return e.first == i; });
                if (it == r.end())
                    return;
                auto d = *it;
                r.erase(it);
                if (front)
                    r.insert(r.begin(), d);
                else
                    r.push_back(d);
            };
            auto shuffle = [&]() {
                for (size_t k = r.size(); k > 1; k--)
                    std::swap(r[k - 1], r[rng.next() % k]);
            };
            switch (order) {
            case 0: break;
            case 1: std::reverse(r.begin(), r.end()); break;
            case 2: shuffle(); break;
            case 3:
                shuffle();
                move_diag(true);
                break;
            default:
                shuffle();
                move_diag(false);
                break;
            }
        }
    int ctor = keep_assembled ? 3 : rng.range(0, 2);
    int xfer = rng.coin(0.6) ? 0 : rng.range(1, 4);
    // right-hand sides
    int nrhs = rng.range(1, c.thorough() ? 6 : 4);
    if (n > 100)
        nrhs = std::min(nrhs, 3);
    std::vector<std::vector<double>> B(nrhs, std::vector<double>(n));
    std::vector<int> rhs_kind(nrhs), api(nrhs + 1);
    static const char* RHS_NAMES[] = {"normal", "wide", "unit", "zero", "A*ones", "row-scaled"};
    // row magnitude (so that a right-hand side can be commensurate with a scaled row)
    std::vector<double> rowmag(n, 0.0);
    for (int i = 0; i < n; i++)
        for (auto& e : rows[i])
            rowmag[i] = std::max(rowmag[i], std::fabs(e.second));
    for (int s = 0; s < nrhs; s++) {
        double u    = rng.u01();
        int k       = u < 0.3 ? 0 : u < 0.45 ? 1 : u < 0.55 ? 2 : u < 0.6 ? 3 : u < 0.75 ? 4 : 5;
        rhs_kind[s] = k;
        int unit    = rng.range(0, n - 1);
        for (int i = 0; i < n; i++) {
            switch (k) {
            case 0: B[s][i] = rng.normal(); break;
            case 1: B[s][i] = rng.sign() * std::pow(10.0, rng.uniform(-8, 8)); break;
            case 2: B[s][i] = i == unit ? 1.0 : 0.0; break;
            case 3: B[s][i] = 0.0; break;
            case 4: {
                ld t = 0;
                for (auto& e : rows[i])
                    t += (ld)e.second;
                B[s][i] = (double)t;
                break;
            }
            default: B[s][i] = rowmag[i] * rng.normal(); break;
            }
        }
    }
    for (auto& a : api)
        a = rng.range(0, 1); // 0: solveInPlace(Vector&), 1: solveInPlace(double*)

    // ---- describe
    long long nnz = 0;
    for (auto& r : rows)
        nnz += (long long)r.size();
    P.i("n", n).str("pattern", pattern_name(pt)).str("variant", variant).str("value_class", valdesc).i("nnz", nnz);
    P.i("row_scaling_decades", rowscale_w).i("global_scale_exp10", global_k).i("stored_zeros", stored_zeros);
    P.i("zero_diagonal_entries", zero_diagonals).str("ordering", order < 0 ? "as-assembled" : ORDER_NAMES[order]);
    P.str("constructor", CTOR_NAMES[ctor]).str("solver_object", XFER_NAMES[xfer]).i("nrhs", nrhs);
    {
        std::string rk;
        for (int s = 0; s < nrhs; s++)
            rk += std::string(s ? "," : "") + RHS_NAMES[rhs_kind[s]];
        P.str("rhs_kinds", rk);
    }
    bool dump = c.arg("dump", "0") == "1"; // --arg dump=1: full input and solutions in the observation (debugging)
    if (n <= 6 || dump) { // small inputs in full, for reproducers
        for (int i = 0; i < n; i++) {
            std::vector<int> cj;
            std::vector<double> cv;
            for (auto& e : rows[i]) {
                cj.push_back(e.first);
                cv.push_back(e.second);
            }
            P.ints("row" + std::to_string(i) + "_cols", cj).nums("row" + std::to_string(i) + "_vals", cv);
        }
        for (int s = 0; s < nrhs; s++)
            P.nums("b" + std::to_string(s), B[s]);
    }

    // ---- reference
    RefLU ref;
    ref.n = n;
    ref.A.assign((size_t)n * n, 0);
    for (int i = 0; i < n; i++)
        for (auto& e : rows[i])
            ref.A[(size_t)i * n + e.first] += (ld)e.second;
    ref.factor();
    // admissible: the oracle's scale is reliable (reference factors and computed factors cannot differ much).
    // high_growth: executed and judged with the (sound, but then weak) scale, never counted as non-trivial evidence.
    bool admissible  = !duplicates && !ref.zero_pivot && ref.growth <= 1e8L && ref.cancel <= 1e10L;
    bool high_growth = admissible && ref.growth > 1e4L;
    std::string fill_cls = ref.fill == 0 ? "none" : (ref.fill * 4 < nnz ? "some" : "heavy");
    bool pivot_small = !ref.zero_pivot && ref.min_pivot_abs < 1e-12L;
    c.obs.info.num("growth_rowwise", (double)ref.growth).num("pivot_cancellation", (double)ref.cancel);
    c.obs.info.num("min_pivot_abs", (double)ref.min_pivot_abs).i("fill_in", ref.fill).i("nnz_L", ref.nnzL).i("nnz_U", ref.nnzU);
    c.obs.info.b("admissible", admissible).b("duplicate_entries", duplicates);

    JObj sig;
    sig.str("n", NCLS[ncls]).str("pattern", pattern_name(pt)).str("values", valdesc).str("ordering", order < 0 ? "as-assembled" : ORDER_NAMES[order]);
    sig.b("zeros", stored_zeros > 0).str("scaling", scale_cls).str("ctor", CTOR_NAMES[ctor]).str("fill", fill_cls);
    c.obs.top.obj("sig", sig);
    if (!admissible) {
        // not covered by the property's premise as far as this oracle can tell reliably: counted, not executed
        c.obs.top.b("nontrivial", false);
        c.obs.info.str("outcome", duplicates ? "skipped-duplicates" : ref.zero_pivot ? "skipped-zero-pivot" : ref.growth > 1e8L ? "skipped-growth" : "skipped-pivot-cancellation");
        return;
    }

    std::string cls = std::string(pattern_name(pt)) + "/" + CTOR_NAMES[ctor] + (xfer != 0 ? std::string("/") + XFER_NAMES[xfer] : std::string());
    c.announce(cls);

    // ---- the real code, in a child
    auto body = [&](C16ChildSink& out) {
        SparseMatrixCSR<double> M;
        if (ctor == 0) {
            M = SparseMatrixCSR<double>(n, n, [&](int i) { return (int)rows[i].size(); });
            for (int i = 0; i < n; i++)
                for (int k = 0; k < (int)rows[i].size(); k++) {
                    M.row_nz_index(i, k) = rows[i][k].first;
                    M.row_nz_entry(i, k) = rows[i][k].second;
                }
        }
        else if (ctor == 1) {
            std::vector<std::tuple<int, int, double>> t;
            for (int i = 0; i < n; i++)
                for (auto& e : rows[i])
                    t.emplace_back(i, e.first, e.second);
            M = SparseMatrixCSR<double>(n, n, t);
        }
        else if (ctor == 2) {
            std::vector<double> v;
            std::vector<int> cj, rs(1, 0);
            for (int i = 0; i < n; i++) {
                for (auto& e : rows[i]) {
                    v.push_back(e.second);
                    cj.push_back(e.first);
                }
                rs.push_back((int)v.size());
            }
            M = SparseMatrixCSR<double>(n, n, v, cj, rs);
        }
        else {
            // copy assignment over a matrix that already holds another system of the same shape and the same number of
            // entries, distributed differently over the rows (the row layout of the target must not survive)
            if (n >= 2 && rng.coin(0.6)) {
                std::vector<std::tuple<int, int, double>> t;
                for (int i = 0; i < n; i++)
                    for (auto& e : rows[(i + 1) % n])
                        t.emplace_back(i, e.first, -e.second);
                M = SparseMatrixCSR<double>(n, n, t);
            }
            M = assembled;
        }
        // container read-back
        bool ok = M.rows() == n && M.columns() == n && M.non_zero_size() == (int)nnz;
        for (int i = 0; ok && i < n; i++) {
            ok = M.row_nz_size(i) == (int)rows[i].size();
            for (int k = 0; ok && k < (int)rows[i].size(); k++) {
                double v = M.row_nz_entry(i, k);
                ok = M.row_nz_index(i, k) == rows[i][k].first && memcmp(&v, &rows[i][k].second, sizeof v) == 0;
            }
        }
        out.put(ok ? 1.0 : 0.0);
        SparseLUSolver<double> s0(M);
        SparseLUSolver<double> s1;
        std::unique_ptr<SparseLUSolver<double>> sp;
        const SparseLUSolver<double>* S = &s0;
        switch (xfer) {
        case 0: break;
        case 1:
            sp = std::make_unique<SparseLUSolver<double>>(s0);
            S  = sp.get();
            break;
        case 2:
            sp = std::make_unique<SparseLUSolver<double>>(std::move(s0));
            S  = sp.get();
            break;
        case 3:
            s1 = s0;
            S  = &s1;
            break;
        default:
            s1 = SparseLUSolver<double>(M); // as the library's own solvers do
            S  = &s1;
            break;
        }
        for (int s = 0; s <= nrhs; s++) { // the last solve repeats the first right-hand side
            const std::vector<double>& b = B[s == nrhs ? 0 : s];
            if (api[s] == 0) {
                Vector<double> x(b);
                S->solveInPlace(x);
                out.put(x.begin(), (size_t)n);
            }
            else {
                std::vector<double> x(b);
                S->solveInPlace(x.data());
                out.put(x.data(), (size_t)n);
            }
        }
    };
    C16ChildOutcome res = c16_run_in_child(body);

    bool lib_exit = res.exited && res.exit_code == EXIT_FAILURE && res.err.find("Zero diagonal encountered in U") != std::string::npos;
    // witness class for the numerical sub-checks: pattern / sorted|unsorted|as-assembled [/ solver transfer]
    std::string solve_key = std::string(pattern_name(pt)) + "/" + (order < 0 ? "as-assembled" : order == 0 ? "sorted" : "unsorted");
    if (xfer != 0)
        solve_key += std::string("/") + XFER_NAMES[xfer];
    if (lib_exit) {
        // the library ended the process: the measured outcome of this case
        c.obs.require("solve_returns", false, std::string("library-exit/") + (pivot_small ? "pivot-below-1e-12" : "pivot-not-below-1e-12"));
        c.obs.info.str("outcome", "library-exit").str("child_stderr", res.err.substr(0, 300));
        c.obs.top.b("nontrivial", false);
        return;
    }
    if (res.exited && res.exit_code == C16_EXIT_EXCEPTION)
        throw std::runtime_error("exception in child: " + res.err.substr(0, 200));
    if (!res.ok())
        c16_die_like_child(res);
    size_t expect = 1 + (size_t)(nrhs + 1) * n;
    if (res.data.size() != expect)
        throw std::runtime_error("child returned " + std::to_string(res.data.size()) + " values, expected " + std::to_string(expect));
    c.obs.require("solve_returns", true, "");
    c.obs.require("csr_roundtrip", res.data[0] == 1.0, std::string(CTOR_NAMES[ctor]) + "/" + (order < 0 ? "as-assembled" : ORDER_NAMES[order]));

    // ---- measure
    if (dump)
        for (int s = 0; s <= nrhs; s++)
            c.obs.info.nums("x" + std::to_string(s), std::vector<double>(res.data.begin() + 1 + (size_t)s * n, res.data.begin() + 1 + (size_t)(s + 1) * n));
    std::vector<ld> scale;
    double worst_first = 0, worst_later = 0;
    for (int s = 0; s < nrhs; s++) {
        const double* x = &res.data[1 + (size_t)s * n];
        ref.scale_vector(x, scale);
        for (int i = 0; i < n; i++) {
            ld r = (ld)B[s][i];
            for (int j = 0; j < n; j++) {
                ld a = ref.A[(size_t)i * n + j];
                if (a != 0)
                    r -= a * (ld)x[j];
            }
            ld sc    = scale[i] + fabsl((ld)B[s][i]);
            double e = sc > 0 ? (double)(fabsl(r) / sc) : (r == 0 ? 0.0 : (double)INFINITY);
            if (!std::isfinite((double)sc) || !std::isfinite((double)r))
                e = NAN; // non-finite solution entries
            c.obs.check("residual_rowwise", e, solve_key + "/" + (fill_cls == "none" ? "no-fill" : "fill") + (s == 0 ? "/first-rhs" : "/later-rhs"));
            (s == 0 ? worst_first : worst_later) = std::max(s == 0 ? worst_first : worst_later, e);
        }
    }
    {
        const double* x0 = &res.data[1];
        const double* xr = &res.data[1 + (size_t)nrhs * n];
        bool same        = memcmp(x0, xr, sizeof(double) * n) == 0;
        c.obs.require("repeat_solve_identical", same, solve_key + (nrhs > 1 ? "/after-other-rhs" : "/immediately"));
    }
    c.obs.info.str("outcome", high_growth ? "solved-high-growth" : "solved").num("worst_first_rhs", worst_first).num("worst_later_rhs", worst_later);
    c.obs.top.b("nontrivial", n >= 2 && ref.nnzL > 0 && ref.nnzU > 0 && !high_growth);
}

int main(int argc, char** argv) { return driver_main(argc, argv, "C16", run_case); }
