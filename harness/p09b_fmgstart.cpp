// C09 (part 2): the FMG start-up (nested iteration). solve() with maxIterations = 0 leaves the start vector in solution().
#include "common/driver.h"
#include "common/gen_grid.h"
#include "common/ref_cycle.h"
#include "common/ref_operator.h"
#include "common/solver_kit.h"
#include <cstring>

typedef GMGPolarVerifAccess Acc;

static Vector<double> fmg_start(GMGPolar& g)
{
    g.solve(); // maxIterations == 0: only initializeSolution() runs
    return Vector<double>(g.solution());
}

static void pollute(Rng& rng, GMGPolar& g)
{
    std::vector<Level>& L = Acc::levels(g);
    for (auto& lv : L) {
        for (Vector<double>* v : {&lv.solution(), &lv.residual(), &lv.error_correction()})
            for (int k = 0; k < v->size(); k++)
                (*v)[k] = rng.uniform(-1e3, 1e3);
    }
}

static void run_case(CaseCtx& c)
{
    Rng& rng = c.rng;
    SolverConfig cfg;
    cfg.ps = random_solver_problem(rng, true, true);
    cfg.R0 = rng.pick({1e-5, 1e-5, 1e-3, 0.1});
    int mode = rng.range(0, 9); // 0-1: two-level/zero-cycles; 2-7: general nested iteration; 8-9: accuracy (bigger grid)
    bool accuracy = mode >= 8;
    cfg.nr_exp = accuracy ? 5 : rng.pick({3, 4, 4, 4, 5});
    cfg.ntheta_exp = -1;
    cfg.divideBy2 = 0;
    if (accuracy && rng.coin(0.3) && c.thorough())
        cfg.divideBy2 = 1;
    cfg.aniso = 0;
    cfg.dirbc = rng.coin();
    cfg.strategy = rng.range(0, 1);
    if (cfg.strategy == 1) {
        cfg.cache_prof = rng.coin();
        cfg.cache_geo = rng.coin();
    }
    cfg.extrapolation = rng.coin(0.5) ? rng.pick({1, 1, 3, 2}) : 0;
    cfg.fmg = true;
    cfg.fmg_iters = rng.range(0, 3);
    cfg.fmg_cycle = rng.range(0, 2);
    cfg.maxLevels = rng.pick({-1, 2, 3, 4, 5});
    cfg.pre = rng.range(1, 2);
    cfg.post = rng.range(1, 2);
    cfg.maxIterations = 0;
    cfg.threads = 1;
    cfg.with_exact = false; // exactError*() with zero iterations is a separate (C20) matter
    if (mode <= 1) {
        cfg.maxLevels = 2;
        cfg.fmg_iters = 0;
    }
    if (accuracy) {
        cfg.fmg_iters = rng.range(1, 3);
        cfg.maxLevels = rng.pick({-1, 3, 4});
        if (cfg.ps.prob == P_REFINED) // steep profile: not resolved on 33x64, accuracy statement is for resolving meshes
            cfg.ps.prob = rng.range(0, 2);
        if (cfg.extrapolation == 2)
            cfg.extrapolation = 1;
    }
    int history = rng.range(0, 3); // 0 fresh, 1 polluted work vectors, 2 reused after a previous solve, 3 start-up options set after setup()
    static const char* hk[] = {"fresh", "polluted", "reused", "options-after-setup"};
    cfg.describe(c.obs.params);
    c.obs.params.str("history", hk[history]).str("mode", mode <= 1 ? "two-level-zero-cycles" : (accuracy ? "accuracy" : "nested-iteration"));
    c.announce(std::string("levels") + std::to_string(cfg.maxLevels) + "/iters" + std::to_string(cfg.fmg_iters) + "/ex" + std::to_string(cfg.extrapolation));

    // --- fresh object
    std::unique_ptr<GMGPolar> g = cfg.make_api();
    g->setup();
    const int nlev = Acc::number_of_levels(*g);
    std::vector<Level>& L = Acc::levels(*g);
    const PolarGrid& grid = L[0].grid();
    const int n = grid.numberOfNodes();
    c.obs.params.i("levels", nlev).i("nr", grid.nr()).i("ntheta", grid.ntheta());
    const DomainGeometry& geo = *Acc::geometry(*g);
    const DensityProfileCoefficients& prof = *Acc::profile(*g);
    const double amp = std::max(1.0, 1e-3 * cfg.ps.Rmax / cfg.R0);
    std::string cls = "levels" + std::to_string(std::min(nlev, 5)) + "/iters" + std::to_string(cfg.fmg_iters) + (cfg.extrapolation ? "/extrapolated" : "/plain");

    // right-hand sides on every level vs the independent discretisation
    {
        auto src = make_source(cfg.ps);
        auto bc  = make_boundary(cfg.ps);
        for (int d = 0; d < nlev; d++) {
            RefOp ref(L[d].grid(), geo, prof, cfg.dirbc);
            std::vector<ld> rr;
            ref.discretise_rhs(*src, *bc, rr);
            const Vector<double>& rl = L[d].rhs();
            c.obs.require("level_rhs_present", rl.size() == L[d].grid().numberOfNodes(), "level" + std::to_string(d));
            if (rl.size() != L[d].grid().numberOfNodes())
                continue;
            ld smax = 0;
            for (auto v : rr)
                smax = std::max(smax, fabsl(v));
            for (int k = 0; k < rl.size(); k++)
                c.obs.check("level_rhs_vs_reference", (double)(fabsl((ld)rl[k] - rr[k]) / (fabsl(rr[k]) + 1e-3L * smax)), d == 0 ? "finest" : "coarser");
        }
    }
    Vector<double> u_fresh = fmg_start(*g);
    bool finite = true;
    double unorm = 0;
    for (int k = 0; k < n; k++) {
        finite = finite && std::isfinite(u_fresh[k]);
        unorm  = std::max(unorm, std::fabs(u_fresh[k]));
    }
    c.obs.require("start_vector_finite", finite, cls);

    // --- reference nested iteration over public operators
    Vector<double> u_ref;
    {
        Interpolation& I = Acc::interpolation(*g);
        bool fgs = Acc::full_grid_smoothing(*g);
        RefCycle rc(L, I, nlev, cfg.pre, cfg.post, fgs);
        Vector<double> x = L[nlev - 1].rhs();
        L[nlev - 1].directSolveInPlace(x);
        for (int d = nlev - 2; d >= 0; d--) {
            Vector<double> xf(L[d].grid().numberOfNodes());
            I.applyFMGInterpolation(L[d + 1], L[d], xf, x);
            Vector<double> f = L[d].rhs();
            for (int it = 0; it < cfg.fmg_iters; it++)
                rc.cycle(cfg.fmg_cycle, d == 0 && cfg.extrapolation != 0, d, xf, f);
            x = xf;
        }
        u_ref = x;
    }
    double rn = 0, dref = 0;
    for (int k = 0; k < n; k++) {
        rn   = std::max(rn, std::fabs(u_ref[k]));
        dref = std::max(dref, std::fabs(u_fresh[k] - u_ref[k]));
    }
    c.obs.check("startup_vs_reference_nested_iteration", rn > 0 ? dref / rn : (dref > 0 ? 1.0 : 0.0), cls);

    // --- two levels, zero cycles: interpolated coarse-grid solution from independent pieces
    if (nlev == 2 && cfg.fmg_iters == 0) {
        const PolarGrid& cg = L[1].grid();
        RefOp refc(cg, geo, prof, cfg.dirbc);
        auto src = make_source(cfg.ps);
        auto bc  = make_boundary(cfg.ps);
        std::vector<ld> fc;
        refc.discretise_rhs(*src, *bc, fc);
        Vector<double> xc(cg.numberOfNodes());
        for (int k = 0; k < xc.size(); k++)
            xc[k] = (double)fc[k];
        LevelCache lcc(cg, prof, geo, true, true);
        DirectSolverGiveCustomLU dsc(cg, lcc, geo, prof, cfg.dirbc, 1);
        dsc.solveInPlace(xc);
        Vector<double> uf(n);
        Acc::interpolation(*g).applyFMGInterpolation(L[1], L[0], uf, xc);
        double s = 0, dd = 0;
        for (int k = 0; k < n; k++) {
            s  = std::max(s, std::fabs(uf[k]));
            dd = std::max(dd, std::fabs(uf[k] - u_fresh[k]));
        }
        c.obs.check("two_level_start_is_interpolated_coarse_solution", s > 0 ? dd / s / amp : 1.0, cfg.extrapolation ? "extrapolated" : "plain");
    }

    // --- function of the data only: polluted / reused objects give the same start vector bit for bit
    {
        Vector<double> u2;
        if (history == 1) {
            pollute(rng, *g);
            u2 = fmg_start(*g);
        }
        else if (history == 2) {
            // a previous, different solve on the same object: a few real iterations, then the start-up again
            g->maxIterations(rng.range(1, 3));
            g->solve();
            g->maxIterations(0);
            u2 = fmg_start(*g);
        }
        else if (history == 3) {
            // the start-up cycle type and count are solve-time options: an object set up with other values and given the
            // final ones afterwards must start exactly like one that had them from the beginning
            SolverConfig other = cfg;
            other.fmg_iters = (cfg.fmg_iters + rng.range(1, 3)) % 4;
            other.fmg_cycle = (cfg.fmg_cycle + rng.range(0, 2)) % 3;
            std::unique_ptr<GMGPolar> g2 = other.make_api();
            g2->setup();
            g2->FMG_iterations(cfg.fmg_iters);
            g2->FMG_cycle(static_cast<MultigridCycleType>(cfg.fmg_cycle));
            u2 = fmg_start(*g2);
        }
        else {
            std::unique_ptr<GMGPolar> g2 = cfg.make_api();
            g2->setup();
            u2 = fmg_start(*g2);
        }
        bool same = true;
        for (int k = 0; k < n; k++)
            same = same && std::memcmp(&u2[k], &u_fresh[k], sizeof(double)) == 0;
        c.obs.require("start_is_function_of_data_only", same, std::string(hk[history]) + "/" + cls);
    }

    // --- accuracy: with >= 1 start-up cycle the start vector already has discretisation-level accuracy
    double ratio = 0;
    if (accuracy && grid.nr() >= 33) {
        auto ex = make_exact(cfg.ps);
        auto err = [&](const Vector<double>& u) {
            double s2 = 0;
            for (int i = 0; i < grid.nr(); i++)
                for (int j = 0; j < grid.ntheta(); j++) {
                    double th = grid.theta(j);
                    double e  = ex->exact_solution(grid.radius(i), th, std::sin(th), std::cos(th)) - u[grid.index(i, j)];
                    s2 += e * e;
                }
            return std::sqrt(s2 / n);
        };
        double e_start = err(u_fresh);
        SolverConfig conv = cfg;
        conv.maxIterations = 150;
        conv.abs_tol = -1;
        conv.rel_tol = 1e-10;
        auto gc = conv.make_api();
        gc->setup();
        gc->solve();
        double e_conv = err(gc->solution());
        ratio = e_conv > 0 ? e_start / e_conv : 0;
        // Judged with at least two start-up cycles on disk-like configurations (R0 <= 1e-3 Rmax): observed ratio <= 4.8 over
        // 400 accuracy cases, allowance 20. With a single cycle the ratio depends on how effective one V(1,1) cycle is for the
        // configuration (12.7 and 44 seen): logged, not judged.
        if (cfg.fmg_iters >= 2 && cfg.R0 <= 1e-3 * cfg.ps.Rmax)
            c.obs.check("start_error_over_converged_error", ratio / 20.0, cls);
        c.obs.info.num("start_over_converged_ratio", ratio);
        c.obs.info.num("e_start", e_start).num("e_converged", e_conv).i("conv_iterations", gc->numberOfIterations());
    }
    JObj sig;
    sig.i("levels", nlev).i("fmg_iters", cfg.fmg_iters).i("fmg_cycle", cfg.fmg_cycle).i("extrap", cfg.extrapolation).str("history", hk[history]).str("strategy", cfg.strategy ? "give" : "take").b("dirbc", cfg.dirbc).b("accuracy", accuracy);
    c.obs.top.obj("sig", sig);
    c.obs.top.b("nontrivial", unorm > 0);
}

int main(int argc, char** argv) { return driver_main(argc, argv, "C09", run_case); }
