// C05: the interior operator is symmetric positive definite (both strategies and the reference stencil).
#include "common/dense.h"
#include "common/driver.h"
#include "common/kit.h"
#include "common/ref_operator.h"

struct Op {
    std::string name;
    std::function<void(const Vector<double>&, std::vector<ld>&)> apply; // y = A x
};

static void run_case(CaseCtx& c)
{
    Rng& rng = c.rng;
    GridOpts go;
    bool dense = rng.coin(0.6);
    int max_unknowns = c.thorough() ? (rng.coin(0.1) ? 2000 : 900) : 500;
    go.nr_min = 5;
    go.min_circ = 2;
    go.min_radial = 3;
    if (dense) {
        go.nr_max = 20;
        go.nth_min = 4;
        go.nth_max = 40;
    }
    else {
        go.nr_min = 12;
        go.nr_max = 48;
        go.nth_min = 16;
        go.nth_max = 96;
    }
    // a few levels above 10 000 nodes with several threads: the parallel paths of both residual operators
    const bool large = !dense && rng.coin(c.thorough() ? 0.02 : 0.05);
    if (large) {
        go.nr_min = 81; go.nr_max = 97; go.nth_min = 128; go.nth_max = 160;
    }
    go.angular_kind = rng.coin(0.7) ? rng.range(1, 2) : 0;
    go.Rmax = rng.pick({1.0, 1.3, 2.0});
    GridSpec gs;
    for (int tries = 0;; tries++) {
        gs = gen_grid(rng, go);
        if (!dense || gs.nr() * gs.ntheta() <= max_unknowns || tries > 50)
            break;
    }
    ProblemSpec ps = random_problem(rng, go.Rmax, true);
    if (rng.coin(0.5) && ps.geom == G_CIRCULAR) { // emphasise non-orthogonal mappings
        ps.geom = rng.range(1, 2);
        random_geom_params(rng, ps);
    }
    maybe_mirror(rng, ps);
    bool dirbc = rng.coin();
    int threads = rng.pick({1, 1, 4});
    if (large)
        threads = rng.pick({2, 4, 16});
    gs.describe(c.obs.params);
    ps.describe(c.obs.params);
    c.obs.params.b("DirBC_Interior", dirbc).b("dense", dense).i("threads", threads).b("large", large);

    // recorded witness of a known finding (fixed input read from /verif/findings): replaces the generated input
    const std::string witness = c.arg("witness", "");
    if (!witness.empty()) {
        FILE* fp = fopen(witness.c_str(), "r");
        if (!fp)
            throw std::runtime_error("cannot open witness file " + witness);
        char line[256];
        if (!fgets(line, sizeof line, fp))
            throw std::runtime_error("witness file empty");
        int nrad = 0, nang = 0, has_split = 0, db = 0;
        double split = 0;
        if (fscanf(fp, " radii %d", &nrad) != 1)
            throw std::runtime_error("witness: radii");
        gs.radii.resize(nrad);
        for (auto& v : gs.radii)
            if (fscanf(fp, "%lf", &v) != 1)
                throw std::runtime_error("witness: radius value");
        if (fscanf(fp, " angles %d", &nang) != 1)
            throw std::runtime_error("witness: angles");
        gs.angles.resize(nang);
        for (auto& v : gs.angles)
            if (fscanf(fp, "%lf", &v) != 1)
                throw std::runtime_error("witness: angle value");
        if (fscanf(fp, " params %lf %d %d %d %d %lf %lf %lf %lf %d", &split, &has_split, &ps.geom, &ps.prob, &ps.prof, &ps.Rmax, &ps.p1, &ps.p2, &ps.alpha_jump, &db) != 10)
            throw std::runtime_error("witness: params");
        fclose(fp);
        gs.split = has_split ? std::optional<double>(split) : std::nullopt;
        gs.radial_kind = "witness";
        gs.angular_kind = "witness";
        gs.split_kind = has_split ? "explicit" : "auto";
        ps.mirror = false;
        dirbc = db != 0;
        dense = false;
        threads = 1;
        c.obs.params.str("witness", witness);
    }
    ProblemObjs po(ps);
    // process history: both operators have been applied before, in this process, on another (small) grid with another number
    // of angles and the across-origin closure -- nothing of that may survive in the library (function-local statics)
    {
        GridOpts dg;
        dg.nr_min = 5; dg.nr_max = 7; dg.nth_min = 4; dg.nth_max = 12; dg.min_circ = 2; dg.min_radial = 3;
        dg.Rmax = go.Rmax;
        GridSpec ds = gen_grid(rng, dg);
        PolarGrid dgrid = ds.make();
        LevelCache dlc(dgrid, *po.prof, *po.geo, true, true);
        Vector<double> dx = random_vector(rng, dgrid.numberOfNodes(), 0), dz(dgrid.numberOfNodes()), dr(dgrid.numberOfNodes());
        assign(dz, 0.0);
        ResidualGive drg(dgrid, dlc, *po.geo, *po.prof, false, 1);
        ResidualTake drt(dgrid, dlc, *po.geo, *po.prof, false, 1);
        drg.computeResidual(dr, dz, dx);
        drt.computeResidual(dr, dz, dx);
    }
    PolarGrid grid = gs.make();
    const int n = grid.numberOfNodes(), nr = grid.nr(), nt = grid.ntheta();
    LevelCache lc(grid, *po.prof, *po.geo, true, true);
    int cc = rng.range(0, 3);
    LevelCache lcg(grid, *po.prof, *po.geo, cc & 1, (cc >> 1) & 1);
    RefOp ref(grid, *po.geo, *po.prof, dirbc);
    ResidualGive rg(grid, lcg, *po.geo, *po.prof, dirbc, threads);
    ResidualTake rt(grid, lc, *po.geo, *po.prof, dirbc, threads);
    Vector<double> zero(n);
    assign(zero, 0.0);

    std::vector<char> is_dir(n, 0);
    std::vector<int> interior; // library indices of non-Dirichlet nodes
    for (int i = 0; i < nr; i++)
        for (int j = 0; j < nt; j++) {
            int k = grid.index(i, j);
            if (ref.is_dirichlet_row(i))
                is_dir[k] = 1;
        }
    for (int k = 0; k < n; k++)
        if (!is_dir[k])
            interior.push_back(k);
    const int m = (int)interior.size();

    std::vector<Op> ops;
    ops.push_back({"give", [&](const Vector<double>& x, std::vector<ld>& y) {
                       Vector<double> r(n);
                       rg.computeResidual(r, zero, x);
                       y.resize(n);
                       for (int k = 0; k < n; k++)
                           y[k] = -(ld)r[k];
                   }});
    ops.push_back({"take", [&](const Vector<double>& x, std::vector<ld>& y) {
                       Vector<double> r(n);
                       rt.computeResidual(r, zero, x);
                       y.resize(n);
                       for (int k = 0; k < n; k++)
                           y[k] = -(ld)r[k];
                   }});
    ops.push_back({"reference", [&](const Vector<double>& x, std::vector<ld>& y) { ref.apply(x, y); }});

    bool art_nonzero = false;
    for (auto v : ref.art_mag)
        if (v > 1e-8L * ref.arr[0])
            art_nonzero = true;
    if (ps.geom == G_CIRCULAR)
        art_nonzero = false;

    // input class of a definiteness witness: the across-origin closure drops the mixed couplings through the origin
    // ("artificial 7-point stencil"), which is the only place where the node-wise ellipticity bound of the scheme is lost
    const std::string pd_class = std::string(dirbc ? "/dirbc" : "/across-origin") + (art_nonzero ? "/mixed-terms" : "/no-mixed-terms");
    auto interior_vector = [&](int kind) {
        Vector<double> v(n);
        assign(v, 0.0);
        if (kind == 3) { // smooth
            double a = rng.uniform(0.5, 3), b = rng.uniform(0, 6.28);
            int mode = rng.range(0, 3);
            for (int i = 0; i < nr; i++)
                for (int j = 0; j < nt; j++)
                    v[grid.index(i, j)] = std::sin(a * grid.radius(i) + b) * std::cos(mode * grid.theta(j));
        }
        else if (kind == 4) { // single node
            v[interior[rng.range(0, m - 1)]] = 1.0;
        }
        else {
            Vector<double> t = random_vector(rng, n, kind);
            v = t;
        }
        for (int k = 0; k < n; k++)
            if (is_dir[k])
                v[k] = 0.0;
        return v;
    };
    auto dot_int = [&](const std::vector<ld>& a, const Vector<double>& b) {
        ld s = 0;
        for (int k : interior)
            s += a[k] * (ld)b[k];
        return s;
    };
    auto absvec = [&](const Vector<double>& v) {
        Vector<double> a(n);
        for (int k = 0; k < n; k++)
            a[k] = std::fabs(v[k]);
        return a;
    };

    // (1) symmetry and positivity on vector pairs
    int npairs = dense ? 6 : 10;
    double min_rayleigh = 1e300;
    for (int p = 0; p < npairs; p++) {
        int kx = rng.range(0, 4), ky = rng.range(0, 4);
        Vector<double> x = interior_vector(kx), y = interior_vector(ky);
        std::vector<ld> aAx, aAy, tmp;
        ref.apply(absvec(x), tmp, &aAx);
        ref.apply(absvec(y), tmp, &aAy);
        ld scale = 0, scale_xx = 0;
        for (int k : interior) {
            scale += fabsl((ld)x[k]) * aAy[k] + fabsl((ld)y[k]) * aAx[k];
            scale_xx += fabsl((ld)x[k]) * aAx[k];
        }
        for (auto& op : ops) {
            std::vector<ld> Ax, Ay;
            op.apply(x, Ax);
            op.apply(y, Ay);
            ld a = dot_int(Ax, y), b = dot_int(Ay, x);
            if (scale > 0)
                c.obs.check("symmetry_inner_product", (double)(fabsl(a - b) / scale), op.name);
            ld q = dot_int(Ax, x);
            if (scale_xx > 0) {
                double rq = (double)(q / scale_xx);
                min_rayleigh = std::min(min_rayleigh, rq);
                c.obs.require("positive_quadratic_form", q > 0, op.name + "/random-vector" + pd_class);
            }
        }
    }
    // (3) approach the smallest eigenvalue by inverse iteration with the library's direct solver
    {
        DirectSolverGiveCustomLU ds(grid, lc, *po.geo, *po.prof, dirbc, 1);
        Vector<double> x = interior_vector(0);
        for (int it = 0; it < 4; it++) {
            ds.solveInPlace(x); // Dirichlet rows are identity rows with zero rhs -> x stays 0 there
            double nx = 0;
            for (int k = 0; k < n; k++) {
                if (is_dir[k])
                    x[k] = 0.0;
                nx = std::max(nx, std::fabs(x[k]));
            }
            if (!(nx > 0) || !std::isfinite(nx))
                break;
            for (int k = 0; k < n; k++)
                x[k] /= nx;
            std::vector<ld> tmp, aAx;
            ref.apply(absvec(x), tmp, &aAx);
            ld sxx = 0;
            for (int k : interior)
                sxx += fabsl((ld)x[k]) * aAx[k];
            if (getenv("VERIF_C05_DIAG") && it == 3) {
                std::vector<ld> Ax;
                ref.apply(x, Ax);
                std::vector<ld> rowq(nr, 0.0L), rown(nr, 0.0L);
                for (int i = 0; i < nr; i++)
                    for (int j = 0; j < nt; j++) {
                        int k = grid.index(i, j);
                        rowq[i] += Ax[k] * (ld)x[k];
                        rown[i] += (ld)x[k] * (ld)x[k];
                    }
                for (int i = 0; i < nr; i++)
                    fprintf(stderr, "DIAGROW i=%d r=%g q_i=%Lg |x_i|^2=%Lg\n", i, grid.radius(i), rowq[i], rown[i]);
            }
            for (auto& op : ops) {
                std::vector<ld> Ax;
                op.apply(x, Ax);
                ld q = dot_int(Ax, x);
                min_rayleigh = std::min(min_rayleigh, (double)(q / sxx));
                if (getenv("VERIF_C05_DIAG"))
                    fprintf(stderr, "DIAG it=%d op=%s q=%Lg sxx=%Lg q/sxx=%Lg\n", it, op.name.c_str(), q, sxx, q / sxx);
                c.obs.require("positive_quadratic_form", q > 0, op.name + "/inverse-iteration" + pd_class);
            }
        }
    }
    c.obs.info.num("min_scaled_rayleigh_quotient", min_rayleigh);

    // (2) dense part: extract the interior matrix column by column
    if (dense && m <= max_unknowns) {
        std::vector<int> pos(n, -1);
        for (int a = 0; a < m; a++)
            pos[interior[a]] = a;
        for (auto& op : ops) {
            std::vector<ld> M((size_t)m * m, 0.0L);
            Vector<double> e(n);
            std::vector<ld> col;
            for (int a = 0; a < m; a++) {
                assign(e, 0.0);
                e[interior[a]] = 1.0;
                op.apply(e, col);
                for (int b = 0; b < m; b++)
                    M[(size_t)b * m + a] = col[interior[b]];
            }
            ld amax = 0, asym = 0;
            for (int a = 0; a < m; a++)
                for (int b = 0; b < m; b++) {
                    amax = std::max(amax, fabsl(M[(size_t)a * m + b]));
                    if (b < a)
                        asym = std::max(asym, fabsl(M[(size_t)a * m + b] - M[(size_t)b * m + a]));
                }
            c.obs.check("matrix_asymmetry", (double)(asym / amax), op.name);
            // diagonally: positive diagonal, M-matrix-like structure is not required; SPD via Cholesky of the symmetric part
            std::vector<ld> S((size_t)m * m);
            for (int a = 0; a < m; a++)
                for (int b = 0; b < m; b++)
                    S[(size_t)a * m + b] = 0.5L * (M[(size_t)a * m + b] + M[(size_t)b * m + a]);
            ld minpiv = cholesky_min_pivot(S, m);
            c.obs.require("cholesky_positive_definite", minpiv > 0, op.name + "/full-interior" + pd_class);
            c.obs.info.num("min_cholesky_pivot_rel_" + op.name, (double)minpiv);
            // line blocks: every circle in the circle section, every radial line in the radial section
            int ncirc = grid.numberSmootherCircles();
            for (int i = 0; i < ncirc; i++) {
                if (ref.is_dirichlet_row(i))
                    continue;
                std::vector<int> idx;
                for (int j = 0; j < nt; j++)
                    idx.push_back(pos[grid.index(i, j)]);
                int q = (int)idx.size();
                std::vector<ld> B((size_t)q * q);
                for (int a = 0; a < q; a++)
                    for (int b = 0; b < q; b++)
                        B[(size_t)a * q + b] = S[(size_t)idx[a] * m + idx[b]];
                c.obs.require("cholesky_positive_definite", cholesky_min_pivot(B, q) > 0, op.name + "/circle-block");
            }
            for (int j = 0; j < nt; j++) {
                std::vector<int> idx;
                for (int i = ncirc; i < nr; i++)
                    if (!ref.is_dirichlet_row(i))
                        idx.push_back(pos[grid.index(i, j)]);
                int q = (int)idx.size();
                if (q == 0)
                    continue;
                std::vector<ld> B((size_t)q * q);
                for (int a = 0; a < q; a++)
                    for (int b = 0; b < q; b++)
                        B[(size_t)a * q + b] = S[(size_t)idx[a] * m + idx[b]];
                c.obs.require("cholesky_positive_definite", cholesky_min_pivot(B, q) > 0, op.name + "/radial-block");
            }
        }
    }
    JObj sig;
    sig.str("geom", geom_name(ps.geom)).b("dirbc", dirbc).str("angular", gs.angular_kind).str("radial", gs.radial_kind);
    sig.str("size", n <= 100 ? "tiny" : (n <= 500 ? "small" : (n <= 2000 ? "medium" : "large"))).b("dense", dense && m <= max_unknowns).str("prof", prof_name(ps.prof));
    c.obs.top.obj("sig", sig);
    c.obs.top.b("nontrivial", true);
    c.obs.info.b("mixed_terms_nonzero", art_nonzero).i("interior_unknowns", m);
}

int main(int argc, char** argv) { return driver_main(argc, argv, "C05", run_case); }
