// C19: shipped test problems are consistent manufactured solutions.
// One case = one command-line combination (geometry, problem, alpha_coeff, beta_coeff) with generated Rmax / R0 /
// geometry parameters.  The objects GMGPolar::setParameters selected are read through the friend accessor and
// MEASURED against numerical differentiation of their own point values; nothing is decided here.
#include "common/driver.h"
#include "common/factory.h"
#include "common/c19_kit.h"
#include <algorithm>

namespace
{
const double TWO_PI = 6.283185307179586476925286766559;

struct SamplePt {
    double r, t;
    const char* kind;
};
} // namespace

static void run_case(CaseCtx& c)
{
    Rng& rng = c.rng;
    // ---------------------------------------------------------------- generate
    int k       = (int)(c.index % 128);
    int beta_c  = k & 1;
    int alpha_c = (k >> 1) & 3;
    int prob    = (k >> 3) & 3;
    int geom    = (k >> 5) & 3;
    ProblemSpec ps;
    ps.geom = geom;
    ps.prob = prob;
    ps.prof = alpha_c == 0 ? F_POISSON : (alpha_c == 1 ? (beta_c ? F_SONN_GYRO : F_SONN) : (alpha_c == 2 ? (beta_c ? F_ZONI_GYRO : F_ZONI) : (beta_c ? F_ZONISH_GYRO : F_ZONISH)));
    ps.Rmax = rng.pick({1.0, 1.3, 2.0});
    random_geom_params(rng, ps, rng.coin(0.15));
    // Shafranov: det DF = (1+kappa) r/Rmax^2 * ((1-kappa) - 2 delta (r/Rmax) cos(theta)) vanishes inside the domain
    // unless 2 delta < 1 - kappa; the box kappa<=0.5, delta<=0.3 contains such singular (inadmissible) mappings.
    // Keep the factor >= 0.2 (1-kappa) (the shipped default kappa=0.3, delta=0.2 has 0.43 (1-kappa)).
    if (ps.geom == G_SHAFRANOV && 2.0 * ps.p2 > 0.8 * (1.0 - ps.p1))
        ps.p2 = rng.uniform(0.0, 0.4 * (1.0 - ps.p1));
    ps.alpha_jump = rng.uniform(0.2, 0.9) * ps.Rmax;
    // any inner radius below Rmax is admissible: thin annuli reach the regions where the boundary data of the Refined
    // problems carry their narrow ring mode
    double R0     = rng.coin(0.25) ? rng.uniform(0.3, 0.98) * ps.Rmax : rng.loguniform(1e-5, 0.3) * ps.Rmax;
    int npts      = atoi(c.arg("points", c.thorough() ? "1000" : "100").c_str());
    double gain   = atof(c.arg("noise_gain", "1e9").c_str());
    double jgain  = atof(c.arg("jac_noise_gain", "1e11").c_str());
    bool dump     = c.arg("dump", "0") == "1"; // debugging aid: per-point details on stderr

    std::string combo = std::string("geometry") + std::to_string(geom) + ".problem" + std::to_string(prob) + ".alpha" +
                        std::to_string(alpha_c) + ".beta" + std::to_string(beta_c);
    ps.describe(c.obs.params);
    c.obs.params.i("cli_geometry", geom).i("cli_problem", prob).i("cli_alpha_coeff", alpha_c).i("cli_beta_coeff", beta_c);
    c.obs.params.num("R0", R0).i("points", npts);

    // the harness's own table (factory.h): which classes this combination should give, or that it is not offered
    std::unique_ptr<DomainGeometry> t_geo;
    std::unique_ptr<DensityProfileCoefficients> t_prof;
    std::unique_ptr<SourceTerm> t_src;
    std::unique_ptr<ExactSolution> t_sol;
    std::unique_ptr<BoundaryConditions> t_bc;
    bool table_valid = true;
    try {
        t_src  = make_source(ps);
        t_sol  = make_exact(ps);
        t_bc   = make_boundary(ps);
        t_geo  = make_geometry(ps);
        t_prof = make_profile(ps);
    }
    catch (const std::runtime_error&) {
        table_valid = false;
    }
    std::string expect_name = table_valid ? c19_dyn_name(t_src.get()) : std::string("(none)");
    c.obs.params.str("table_source_class", expect_name);
    c.announce(combo);

    // ---------------------------------------------------------------- drive the command line
    std::vector<std::string> av = {"gmgpolar",
                                   "--geometry", std::to_string(geom),
                                   "--problem", std::to_string(prob),
                                   "--alpha_coeff", std::to_string(alpha_c),
                                   "--beta_coeff", std::to_string(beta_c),
                                   "--Rmax", jnum(ps.Rmax),
                                   "--R0", jnum(R0),
                                   "--kappa_eps", jnum(ps.p1),
                                   "--delta_e", jnum(ps.p2),
                                   "--alpha_jump", jnum(ps.alpha_jump),
                                   "--verbose", "0"};
    std::vector<char*> argv;
    for (auto& s : av)
        argv.push_back(const_cast<char*>(s.c_str()));
    GMGPolar solver;
    bool accepted = true;
    std::string reject_msg;
    try {
        solver.setParameters((int)argv.size(), argv.data());
    }
    catch (const std::runtime_error& e) {
        accepted   = false;
        reject_msg = e.what();
    }
    c.obs.info.b("accepted", accepted).b("table_valid", table_valid);
    c.obs.require("selection_table", accepted == table_valid,
                  (accepted ? "accepted-but-not-in-table/" : "rejected-but-in-table/") + combo);
    JObj sig;
    if (!accepted) {
        sig.str("class", "(rejected) " + combo);
        c.obs.top.obj("sig", sig);
        c.obs.top.b("nontrivial", false);
        c.obs.info.str("reject_message", reject_msg);
        return;
    }
    C19Problem P;
    P.geo  = GMGPolarVerifAccess::geo(solver);
    P.prof = GMGPolarVerifAccess::prof(solver);
    P.bc   = GMGPolarVerifAccess::bc(solver);
    P.src  = GMGPolarVerifAccess::src(solver);
    P.sol  = GMGPolarVerifAccess::sol(solver);
    P.Rmax = solver.Rmax();
    c.obs.require("selection_parameters",
                  solver.Rmax() == ps.Rmax && solver.R0() == R0 && GMGPolarVerifAccess::kappa_eps(solver) == ps.p1 &&
                      GMGPolarVerifAccess::delta_e(solver) == ps.p2 && GMGPolarVerifAccess::alpha_jump(solver) == ps.alpha_jump,
                  combo);
    bool have_all = P.geo && P.prof && P.bc && P.src && P.sol;
    c.obs.require("selection_complete", have_all, combo);
    std::string src_name = c19_dyn_name(P.src), geo_name = c19_dyn_name(P.geo), prof_name_s = c19_dyn_name(P.prof);
    c.obs.info.str("source_class", src_name).str("geometry_class", geo_name).str("profile_class", prof_name_s);
    c.obs.info.str("solution_class", c19_dyn_name(P.sol)).str("boundary_class", c19_dyn_name(P.bc));
    sig.str("class", src_name);
    c.obs.top.obj("sig", sig);
    if (!have_all) {
        c.obs.top.b("nontrivial", false);
        return;
    }
    if (table_valid) {
        c.obs.require("selection_types", typeid(*P.src) == typeid(*t_src), expect_name + "/source-term-is-" + src_name);
        c.obs.require("selection_types", typeid(*P.sol) == typeid(*t_sol), expect_name + "/exact-solution-is-" + c19_dyn_name(P.sol));
        c.obs.require("selection_types", typeid(*P.bc) == typeid(*t_bc), expect_name + "/boundary-is-" + c19_dyn_name(P.bc));
        c.obs.require("selection_types", typeid(*P.geo) == typeid(*t_geo), expect_name + "/geometry-is-" + geo_name);
        c.obs.require("selection_types", typeid(*P.prof) == typeid(*t_prof), expect_name + "/profile-is-" + prof_name_s);
    }
    const bool culham = dynamic_cast<const CulhamGeometry*>(P.geo) != nullptr;
    const bool gyro   = beta_c == 1 && alpha_c != 0;
    const double Rmax = P.Rmax;

    // ---------------------------------------------------------------- points
    std::vector<SamplePt> pts;
    for (int n = 0; n < npts; n++) {
        double u = rng.u01();
        SamplePt q;
        if (u < 0.5) {
            int i = rng.range(0, 39), j = rng.range(0, 63);
            q     = {R0 + (Rmax - R0) * (i + 1) / 41.0, TWO_PI * j / 64.0, "lattice"};
        }
        else if (u < 0.8) {
            q = {rng.loguniform(std::max(R0, 1e-3 * Rmax), Rmax), rng.uniform(0, TWO_PI), "random"};
        }
        else if (u < 0.9) {
            double d = rng.loguniform(1e-9, 1e-2);
            q        = {rng.coin() ? R0 + (Rmax - R0) * d : Rmax - (Rmax - R0) * d, rng.uniform(0, TWO_PI), "near-boundary"};
        }
        else {
            double t = (M_PI / 2) * rng.range(0, 3);
            if (rng.coin())
                t += rng.sign() * rng.loguniform(1e-12, 1e-3);
            if (t < 0)
                t += TWO_PI;
            q = {rng.uniform(R0, Rmax), t, "axis-angle"};
        }
        if (!(q.r > R0))
            q.r = std::nextafter(R0, Rmax);
        if (!(q.r < Rmax))
            q.r = std::nextafter(Rmax, R0);
        pts.push_back(q);
    }

    // ---------------------------------------------------------------- (1) Jacobian functions vs the mapping
    auto Fx = [&](double r, double t) { return (ld)P.geo->Fx(r, t, std::sin(t), std::cos(t)); };
    auto Fy = [&](double r, double t) { return (ld)P.geo->Fy(r, t, std::sin(t), std::cos(t)); };
    double jac_scale_min = 1e300;
    int jac_unres        = 0;
    for (const SamplePt& q : pts) {
        double s = std::sin(q.t), co = std::cos(q.t);
        ld jxr = P.geo->dFx_dr(q.r, q.t, s, co), jyr = P.geo->dFy_dr(q.r, q.t, s, co);
        ld jxt = P.geo->dFx_dt(q.r, q.t, s, co), jyt = P.geo->dFy_dt(q.r, q.t, s, co);
        // theta direction
        std::vector<double> hs;
        std::vector<int> ps_;
        c19_angular_ladder(5, hs, ps_, 0.08);
        ld at = fabsl((ld)q.t) + 0.2L;
        C19Line lx, ly;
        lx.sample([&](double o) { return Fx(q.r, q.t + o); }, hs, ps_);
        ly.sample([&](double o) { return Fy(q.r, q.t + o); }, hs, ps_);
        C19Q dxt = lx.get(1, 4, at), dyt = ly.get(1, 4, at);
        ld colt = sqrtl(dxt.val * dxt.val + dyt.val * dyt.val) + sqrtl(jxt * jxt + jyt * jyt);
        c.obs.check("jacobian", (double)(fabsl(jxt - dxt.val) / (colt + jgain * dxt.unc)), geo_name + "/dFx_dt");
        c.obs.check("jacobian", (double)(fabsl(jyt - dyt.val) / (colt + jgain * dyt.unc)), geo_name + "/dFy_dt");
        jac_scale_min = std::min(jac_scale_min, (double)colt);
        jac_unres += (std::max(dxt.unc, dyt.unc) > 1e-10L * colt);
        if (dump)
            fprintf(stderr, "jact r=%.17g t=%.17g jxt=%.6Le fd=%.6Le unc=%.3Le pick=%d | jyt=%.6Le fd=%.6Le unc=%.3Le pick=%d col=%.3Le vx=%.3Lg vy=%.3Lg\n", q.r, q.t, jxt, dxt.val, dxt.unc, dxt.pick, jyt, dyt.val, dyt.unc, dyt.pick, colt,
                    fabsl(jxt - dxt.val) / (colt + jgain * dxt.unc), fabsl(jyt - dyt.val) / (colt + jgain * dyt.unc));
        if (!culham) {
            c19_radial_ladder(q.r, Rmax, 5, hs, ps_);
            C19Line rx, ry;
            rx.sample([&](double o) { return Fx(q.r + o, q.t); }, hs, ps_);
            ry.sample([&](double o) { return Fy(q.r + o, q.t); }, hs, ps_);
            C19Q dxr = rx.get(1, 4, q.r), dyr = ry.get(1, 4, q.r);
            ld colr = sqrtl(dxr.val * dxr.val + dyr.val * dyr.val) + sqrtl(jxr * jxr + jyr * jyr);
            c.obs.check("jacobian", (double)(fabsl(jxr - dxr.val) / (colr + jgain * dxr.unc)), geo_name + "/dFx_dr");
            c.obs.check("jacobian", (double)(fabsl(jyr - dyr.val) / (colr + jgain * dyr.unc)), geo_name + "/dFy_dr");
            jac_scale_min = std::min(jac_scale_min, (double)colr);
            jac_unres += (std::max(dxr.unc, dyr.unc) > 1e-10L * colr);
        }
        else {
            // Culham: the radial profile functions are tabulated on 1000 cells and interpolated linearly, so the mapping
            // is piecewise linear in r.  Its radial derivative is compared on whole cells: secant over the cell that
            // contains r vs the Jacobian function at the cell midpoint (agree to O(cell^2) if consistent).
            int lo_cell = (int)std::ceil(R0 / Rmax * 1000.0), cell = (int)std::floor(q.r / Rmax * 1000.0);
            cell        = std::max(lo_cell, std::min(999, cell));
            double ra = cell * Rmax / 1000.0, rb = std::min(Rmax, (cell + 1) * Rmax / 1000.0), rm = 0.5 * (ra + rb);
            if (ra >= R0 && rb > ra) {
                ld sx = (Fx(rb, q.t) - Fx(ra, q.t)) / ((ld)rb - (ld)ra), sy = (Fy(rb, q.t) - Fy(ra, q.t)) / ((ld)rb - (ld)ra);
                ld mx = P.geo->dFx_dr(rm, q.t, s, co), my = P.geo->dFy_dr(rm, q.t, s, co);
                ld colr = sqrtl(sx * sx + sy * sy) + sqrtl(mx * mx + my * my);
                // the first cells carry the start-up error of the tabulated ODE solution (measured separately)
                const char* nm = cell >= 16 ? "jacobian_culham_radial" : "jacobian_culham_radial_startup";
                c.obs.check(nm, (double)(fabsl(mx - sx) / colr), geo_name + "/dFx_dr");
                c.obs.check(nm, (double)(fabsl(my - sy) / colr), geo_name + "/dFy_dr");
                jac_scale_min = std::min(jac_scale_min, (double)colr);
                if (dump)
                    fprintf(stderr, "culham cell=%d t=%.6f ex=%.3Le ey=%.3Le col=%.3Le\n", cell, q.t, fabsl(mx - sx) / colr, fabsl(my - sy) / colr, colr);
            }
        }
    }

    // ---------------------------------------------------------------- (4) gyro profiles: alpha * beta == 1
    if (gyro) {
        for (const SamplePt& q : pts) {
            double a = P.prof->alpha(q.r), b = P.prof->beta(q.r);
            c.obs.check("gyro_alpha_beta", std::fabs(a * b - 1.0), prof_name_s);
        }
    }

    int n_f_nonzero = 0, n_resolved = 0;
    if (!culham) {
        // ------------------------------------------------------------ (3) boundary data
        double amp = 0;
        for (const SamplePt& q : pts)
            amp = std::max(amp, std::fabs(P.u(q.r, q.t)));
        for (const SamplePt& q : pts) {
            double s = std::sin(q.t), co = std::cos(q.t);
            amp = std::max({amp, std::fabs(P.sol->exact_solution(Rmax, q.t, s, co)), std::fabs(P.sol->exact_solution(R0, q.t, s, co))});
        }
        c.obs.info.num("solution_amplitude", amp);
        std::string bc_name = c19_dyn_name(P.bc);
        for (const SamplePt& q : pts) {
            double s = std::sin(q.t), co = std::cos(q.t);
            double uo = P.sol->exact_solution(Rmax, q.t, s, co), bo = P.bc->u_D(Rmax, q.t, s, co);
            double ui = P.sol->exact_solution(R0, q.t, s, co), bi = P.bc->u_D_Interior(R0, q.t, s, co);
            c.obs.check("boundary_outer", amp > 0 ? std::fabs(uo - bo) / amp : (uo == bo ? 0.0 : 1.0), bc_name + "/with-" + c19_dyn_name(P.sol));
            c.obs.check("boundary_interior", amp > 0 ? std::fabs(ui - bi) / amp : (ui == bi ? 0.0 : 1.0), bc_name + "/with-" + c19_dyn_name(P.sol));
        }
        // ------------------------------------------------------------ (2) source term vs -div(alpha grad u) + beta u
        double worst_plain = 0;
        for (const SamplePt& q : pts) {
            ld f       = P.f(q.r, q.t);
            C19Lu lu   = c19_Lu(P, q.r, q.t);
            ld S       = fabsl(f) + lu.terms;
            ld err     = fabsl(f - lu.value);
            // rounding of the closed form rhs_f itself: on a symmetry axis every term of L u (and f) vanishes while the
            // summands inside rhs_f do not; they are as large as f is in a theta-neighbourhood of the point
            ld fmag = fabsl(f);
            for (double dt : {-0.1, -0.05, 0.05, 0.1})
                fmag = std::max(fmag, fabsl((ld)P.f(q.r, q.t + dt)));
            lu.unc += 64 * 1.1102230246251565e-16L * fmag;
            double val = (double)(err / (S + gain * lu.unc));
            if (!(S > 0))
                val = err == 0 ? 0.0 : 1.0;
            bool resolved = lu.unc <= 1e-8L * S; // differentiation resolved L u to 1e-8 of the term magnitude
            c.obs.check("source_term", val, src_name + "/" + q.kind);
            if (resolved)
                worst_plain = std::max(worst_plain, (double)(err / S));
            if (f != 0)
                n_f_nonzero++;
            if (resolved)
                n_resolved++;
            if (dump) {
                fprintf(stderr, "pt r=%.17g t=%.17g %s f=%.6Le Lu=%.6Le terms=%.3Le unc=%.3Le val=%.3g rel=%.3Lg picks", q.r, q.t,
                        q.kind, f, lu.value, lu.terms, lu.unc, val, err / S);
                for (int i = 0; i < 9; i++)
                    fprintf(stderr, " %d", lu.picks[i]);
                fprintf(stderr, "\n");
            }
        }
        c.obs.info.num("source_worst_resolved_rel", worst_plain);
    }
    c.obs.info.i("f_nonzero", n_f_nonzero).i("resolved", n_resolved).i("jacobian_unresolved", jac_unres);
    bool nontrivial = culham ? jac_scale_min > 0 : (n_f_nonzero * 10 >= npts * 9 && n_resolved * 3 >= npts * 2);
    c.obs.top.b("nontrivial", nontrivial);
}

int main(int argc, char** argv) { return driver_main(argc, argv, "C19", run_case); }
