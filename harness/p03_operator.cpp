// C03: one discrete operator -- give, take, cached, uncached, any level, and the reference stencil agree.
#include "common/driver.h"
#include "common/kit.h"
#include "common/ref_operator.h"
#include <cstring>

static void run_case(CaseCtx& c)
{
    Rng& rng = c.rng;
    // ---- generate
    GridOpts go;
    go.nr_min = 5;
    go.nr_max = c.thorough() ? 48 : 28;
    go.nth_min = 4;
    go.nth_max = c.thorough() ? 96 : 40;
    go.min_circ = 2;
    go.min_radial = 3;
    bool want_chain = rng.coin(0.5);
    if (want_chain) {
        go.odd_nr      = true;
        go.nr_min      = 5;
        go.nth_multiple = 4;
        go.nth_min     = 8;
    }
    bool minimal = rng.coin(0.08);
    if (minimal) {
        go.nr_min = go.nr_max = want_chain ? 9 : 5;
        go.nth_min = go.nth_max = want_chain ? 8 : 4;
    }
    go.Rmax   = rng.pick({1.0, 1.3, 2.0});
    if (rng.coin(0.06))
        go.R0 = rng.pick({1e-10, 1e-12, 1e-14}); // any R0 > 0 is admissible: |det DF| ~ R0 on the innermost circle
    GridSpec gs = gen_grid(rng, go);
    ProblemSpec ps = random_problem(rng, go.Rmax, true);
    maybe_mirror(rng, ps);
    bool dirbc = rng.coin();
    int vkind  = rng.range(0, 2);
    int threads = rng.pick({1, 1, 2, 3, 4});
    gs.describe(c.obs.params);
    ps.describe(c.obs.params);
    c.obs.params.b("DirBC_Interior", dirbc).str("vec_kind", vec_kind_name(vkind)).i("threads", threads).b("chain", want_chain);

    ProblemObjs po(ps);
    PolarGrid fine = gs.make();
    int nlev = 1 + (want_chain ? max_coarsenings(fine.nr(), fine.ntheta(), 5, 4) : 0);
    if (nlev > 4)
        nlev = 4;
    c.obs.params.i("levels", nlev).i("circles", fine.numberSmootherCircles());

    // four cache combinations
    Hierarchy H[4];
    for (int cc = 0; cc < 4; cc++)
        H[cc].build(fine, po, cc & 1, (cc >> 1) & 1, nlev);

    long long nodes_total = 0;
    double norm_Au_min = 1e300;
    for (int d = 0; d < nlev; d++) {
        const PolarGrid& g = H[3].levels[d]->grid();
        int n = g.numberOfNodes();
        nodes_total += n;
        Vector<double> u = random_vector(rng, n, vkind);
        Vector<double> f = random_vector(rng, n, vkind == 2 ? 0 : vkind);
        RefOp ref(g, *po.geo, *po.prof, dirbc);
        std::vector<ld> Au, absAu;
        ref.apply(u, Au, &absAu);
        ld nAu = 0;
        for (auto v : Au)
            nAu += fabsl(v);
        norm_Au_min = std::min(norm_Au_min, (double)nAu);
        std::string lvl = d == 0 ? "level0" : "coarse";

        // residuals: give x 4 caches, take (both caches)
        std::vector<Vector<double>> res;
        std::vector<std::string> names;
        for (int cc = 0; cc < 4; cc++) {
            Level& L = *H[cc].levels[d];
            ResidualGive rg(L.grid(), L.levelCache(), *po.geo, *po.prof, dirbc, threads);
            Vector<double> r(n);
            rg.computeResidual(r, f, u);
            res.push_back(r);
            names.push_back(std::string("give") + char('0' + cc));
            if (threads > 1 && cc == 3) {
                // the scatter must give the same bits every time it runs with the same team size
                bool same = true;
                for (int rep = 0; rep < 6 && same; rep++) {
                    Vector<double> r2(n);
                    rg.computeResidual(r2, f, u);
                    for (int k = 0; k < n; k++)
                        same = same && std::memcmp(&r2[k], &r[k], sizeof(double)) == 0;
                }
                c.obs.require("give_repeatable_bitwise", same, lvl + "/T" + std::to_string(threads));
            }
        }
        {
            Level& L = *H[3].levels[d];
            ResidualTake rt(L.grid(), L.levelCache(), *po.geo, *po.prof, dirbc, threads);
            Vector<double> r(n);
            rt.computeResidual(r, f, u);
            res.push_back(r);
            names.push_back("take");
        }
        // in-place use: the result vector may be the right-hand-side vector itself (r = f - A u written over f); both
        // strategies read what they need before they overwrite it
        {
            Level& L = *H[3].levels[d];
            ResidualGive rg(L.grid(), L.levelCache(), *po.geo, *po.prof, dirbc, threads);
            ResidualTake rt(L.grid(), L.levelCache(), *po.geo, *po.prof, dirbc, threads);
            Vector<double> vg = f, vt = f;
            rg.computeResidual(vg, vg, u);
            rt.computeResidual(vt, vt, u);
            bool same_g = true, same_t = true;
            for (int k = 0; k < n; k++) {
                same_g = same_g && std::memcmp(&vg[k], &res[3][k], sizeof(double)) == 0;
                same_t = same_t && std::memcmp(&vt[k], &res[4][k], sizeof(double)) == 0;
            }
            c.obs.require("in_place_equals_out_of_place", same_g, "give/" + lvl);
            c.obs.require("in_place_equals_out_of_place", same_t, "take/" + lvl);
        }
        // the operator a Level owns (what the solver uses): initialised for the other boundary mode first, then for this one --
        // the second initialisation must win; result compared bit for bit with the directly constructed operator
        {
            const bool use_take = rng.coin(0.4);
            const int cc = use_take ? 3 : rng.range(0, 3);
            Level& L = *H[cc].levels[d];
            const auto method = use_take ? StencilDistributionMethod::CPU_TAKE : StencilDistributionMethod::CPU_GIVE;
            if (rng.coin(0.7))
                L.initializeResidual(*po.geo, *po.prof, !dirbc, rng.pick({1, threads}), method);
            L.initializeResidual(*po.geo, *po.prof, dirbc, threads, method);
            Vector<double> r(n);
            L.computeResidual(r, f, u);
            const Vector<double>& direct = use_take ? res[4] : res[cc];
            bool same = true;
            for (int k = 0; k < n; k++)
                same = same && std::memcmp(&r[k], &direct[k], sizeof(double)) == 0;
            c.obs.require("level_operator_equals_direct_operator", same, std::string(use_take ? "take" : "give") + "/" + lvl);
        }
        // compare each with the reference; scale = |A||u| + |f|
        for (size_t k = 0; k < res.size(); k++) {
            for (int i = 0; i < g.nr(); i++)
                for (int j = 0; j < g.ntheta(); j++) {
                    int idx   = g.index(i, j);
                    ld refres = (ld)f[idx] - Au[idx];
                    ld scale  = absAu[idx] + fabsl((ld)f[idx]);
                    bool dir  = ref.is_dirichlet_row(i);
                    std::string rowkind = dir ? "dirichlet" : (i == 0 ? "across-origin" : (i == 1 || i == g.nr() - 2 ? "next-to-boundary" : "interior"));
                    if (dir) {
                        // identity rows: exact
                        c.obs.require("dirichlet_row_identity", res[k][idx] == f[idx] - u[idx], names[k] + "/" + lvl);
                    }
                    else {
                        double e = scale > 0 ? (double)(fabsl((ld)res[k][idx] - refres) / scale) : (res[k][idx] == 0 ? 0.0 : 1.0);
                        c.obs.check(k < 4 ? "give_vs_reference" : "take_vs_reference", e, names[k] + "/" + lvl + "/" + rowkind);
                    }
                }
        }
        // pairwise: give variants and take against give3
        for (size_t k = 0; k < res.size(); k++) {
            if (k == 3)
                continue;
            for (int idx = 0; idx < n; idx++) {
                ld scale = absAu[idx] + fabsl((ld)f[idx]);
                double e = scale > 0 ? (double)(fabsl((ld)res[k][idx] - (ld)res[3][idx]) / scale) : (res[k][idx] == res[3][idx] ? 0.0 : 1.0);
                c.obs.check(k == 4 ? "take_vs_give" : "cached_vs_uncached", e, names[k] + "/" + lvl);
            }
        }
        // coarse cache vs fresh cache on the same coarse grid
        if (d > 0) {
            for (int cc = 1; cc < 4; cc++) {
                const LevelCache& lc = H[cc].levels[d]->levelCache();
                LevelCache fresh(g, *po.prof, *po.geo, cc & 1, (cc >> 1) & 1);
                auto relv = [&](double a, double b) {
                    double m = std::max(std::fabs(a), std::fabs(b));
                    return m > 0 ? std::fabs(a - b) / m : 0.0;
                };
                c.obs.require("coarse_cache_shape",
                              lc.sin_theta().size() == fresh.sin_theta().size() && lc.coeff_alpha().size() == fresh.coeff_alpha().size() &&
                                  lc.coeff_beta().size() == fresh.coeff_beta().size() && lc.arr().size() == fresh.arr().size() &&
                                  lc.att().size() == fresh.att().size() && lc.art().size() == fresh.art().size() &&
                                  lc.detDF().size() == fresh.detDF().size() &&
                                  lc.cacheDensityProfileCoefficients() == fresh.cacheDensityProfileCoefficients() &&
                                  lc.cacheDomainGeometry() == fresh.cacheDomainGeometry(),
                              "cache" + std::to_string(cc));
                for (size_t j = 0; j < std::min(lc.sin_theta().size(), fresh.sin_theta().size()); j++) {
                    c.obs.check("coarse_cache_trig", std::max(std::fabs(lc.sin_theta()[j] - fresh.sin_theta()[j]), std::fabs(lc.cos_theta()[j] - fresh.cos_theta()[j])), "sincos");
                }
                for (size_t i = 0; i < std::min(lc.coeff_alpha().size(), fresh.coeff_alpha().size()); i++)
                    c.obs.check("coarse_cache_values", relv(lc.coeff_alpha()[i], fresh.coeff_alpha()[i]), "alpha");
                for (size_t i = 0; i < std::min(lc.coeff_beta().size(), fresh.coeff_beta().size()); i++)
                    c.obs.check("coarse_cache_values", relv(lc.coeff_beta()[i], fresh.coeff_beta()[i]), "beta");
                for (int i = 0; i < std::min(lc.arr().size(), fresh.arr().size()); i++) {
                    c.obs.check("coarse_cache_values", relv(lc.arr()[i], fresh.arr()[i]), "arr");
                    c.obs.check("coarse_cache_values", relv(lc.att()[i], fresh.att()[i]), "att");
                    // art can be ~0 by cancellation: scale with arr/att magnitude
                    double s = std::max({std::fabs(fresh.arr()[i]), std::fabs(fresh.att()[i]), std::fabs(fresh.art()[i])});
                    c.obs.check("coarse_cache_values", s > 0 ? std::fabs(lc.art()[i] - fresh.art()[i]) / s : 0.0, "art");
                    c.obs.check("coarse_cache_values", relv(lc.detDF()[i], fresh.detDF()[i]), "detDF");
                }
            }
        }
        // fresh cache values vs reference coefficients (level 0 only; the reference recomputes them in long double)
        if (d == 0) {
            const LevelCache& lc = H[3].levels[0]->levelCache();
            for (int i = 0; i < g.nr(); i++)
                for (int j = 0; j < g.ntheta(); j++) {
                    int idx = g.index(i, j), k = ref.own(i, j);
                    double s = (double)std::max({fabsl(ref.arr[k]), fabsl(ref.att[k]), fabsl(ref.art[k])});
                    double e = std::max({std::fabs(lc.arr()[idx] - (double)ref.arr[k]), std::fabs(lc.att()[idx] - (double)ref.att[k]),
                                         std::fabs(lc.art()[idx] - (double)ref.art[k])}) / s;
                    c.obs.check("cache_vs_reference_coefficients", e, "arr-att-art");
                    c.obs.check("cache_vs_reference_coefficients", std::fabs(std::fabs(lc.detDF()[idx]) - (double)ref.adet[k]) / (double)ref.adet[k], "detDF");
                }
        }
    }
    // signature
    JObj sig;
    sig.str("geom", geom_name(ps.geom)).str("prof", prof_name(ps.prof)).b("dirbc", dirbc).i("circ_mod2", fine.numberSmootherCircles() % 2);
    sig.str("nr_class", fine.nr() <= 5 ? "min" : (fine.nr() <= 12 ? "small" : "large")).i("nt_mod4", fine.ntheta() % 4).i("levels", nlev).str("vec", vec_kind_name(vkind)).i("threads", threads);
    c.obs.top.obj("sig", sig);
    c.obs.top.b("nontrivial", norm_Au_min > 0 && !minimal);
    c.obs.info.i("nodes_total", nodes_total);
}

int main(int argc, char** argv) { return driver_main(argc, argv, "C03", run_case); }
