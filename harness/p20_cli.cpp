// C20 (command-line route): the gmgpolar binary, built with ASan/UBSan and assertions, over the option cross product.
// Outcome classes: ran (exit 0), rejected-usage (exit 1 and a usage/error message); anything else -- signal, failed
// assertion, sanitizer report, uncaught exception -- is recorded as an unclean outcome with its classification.
#include "common/driver.h"
#include "common/factory.h"
#include <fcntl.h>
#include <filesystem>
#include <regex>
#include <sys/wait.h>
#include <unistd.h>

struct Run { int status; std::string err, out; bool timed_out; };

static Run run_binary(const std::string& exe, const std::vector<std::string>& args, const std::string& cwd, int timeout_s)
{
    Run r{0, "", "", false};
    std::string ferr = cwd + "/stderr.txt", fout = cwd + "/stdout.txt";
    pid_t pid = fork();
    if (pid == 0) {
        if (chdir(cwd.c_str()) != 0)
            _exit(126);
        int fe = open(ferr.c_str(), O_WRONLY | O_CREAT | O_TRUNC, 0644), fo = open(fout.c_str(), O_WRONLY | O_CREAT | O_TRUNC, 0644);
        dup2(fe, 2);
        dup2(fo, 1);
        std::vector<char*> av;
        av.push_back(const_cast<char*>(exe.c_str()));
        for (auto& a : args)
            av.push_back(const_cast<char*>(a.c_str()));
        av.push_back(nullptr);
        setenv("ASAN_OPTIONS", "detect_leaks=0:abort_on_error=1", 1);
        setenv("UBSAN_OPTIONS", "print_stacktrace=0", 1);
        alarm(timeout_s);
        execv(exe.c_str(), av.data());
        _exit(127);
    }
    int st = 0;
    waitpid(pid, &st, 0);
    r.status = st;
    auto slurp = [](const std::string& f) {
        std::string s;
        FILE* fp = fopen(f.c_str(), "r");
        if (!fp)
            return s;
        char buf[4096];
        size_t k;
        while ((k = fread(buf, 1, sizeof buf, fp)) > 0)
            s.append(buf, k);
        fclose(fp);
        return s;
    };
    r.err = slurp(ferr);
    r.out = slurp(fout);
    r.timed_out = WIFSIGNALED(st) && WTERMSIG(st) == SIGALRM;
    return r;
}

static void run_case(CaseCtx& c)
{
    Rng& rng = c.rng;
    std::string exe = c.arg("gmgpolar");
    // base: a small valid configuration
    std::map<std::string, std::string> o;
    ProblemSpec ps;
    ps.Rmax = 1.3;
    ps.geom = rng.range(0, 3);
    ps.prob = rng.range(0, 3);
    ps.prof = rng.range(0, 6);
    bool valid_triple = true;
    if (ps.geom == G_CULHAM)
        valid_triple = (ps.prob >= 2 && ps.prof == F_ZONISH_GYRO);
    if (ps.prob == P_REFINED && ps.prof != F_ZONISH_GYRO)
        valid_triple = false;
    random_geom_params(rng, ps, true);
    o["geometry"] = std::to_string(ps.geom);
    o["problem"] = std::to_string(ps.prob);
    o["alpha_coeff"] = std::to_string(prof_alpha_coeff(ps.prof));
    o["beta_coeff"] = std::to_string(prof_beta_coeff(ps.prof));
    o["kappa_eps"] = std::to_string(ps.p1);
    o["delta_e"] = std::to_string(ps.p2);
    o["alpha_jump"] = std::to_string(documented_alpha_jump(ps.prof, ps.Rmax));
    o["Rmax"] = "1.3";
    o["R0"] = rng.pick({"1e-5", "1e-8", "0.01"});
    o["nr_exp"] = rng.pick({"3", "3", "4"});
    o["DirBC_Interior"] = rng.pick({"0", "1"});
    o["extrapolation"] = std::to_string(rng.range(0, 3));
    o["multigridCycle"] = std::to_string(rng.range(0, 2));
    o["FMG"] = rng.pick({"0", "0", "1"});
    o["stencilDistributionMethod"] = rng.pick({"0", "1"});
    o["maxOpenMPThreads"] = rng.pick({"1", "1", "4"});
    o["verbose"] = rng.pick({"0", "1"});
    o["maxIterations"] = rng.pick({"5", "30"});
    std::vector<std::string> extremes;
    bool expect_usage = false; // option value the parser itself must refuse
    int nmut = rng.range(0, 3);
    for (int m = 0; m < nmut; m++) {
        switch (rng.range(0, 15)) {
        case 0: o["stencilDistributionMethod"] = "0"; o[rng.coin() ? "cacheDomainGeometry" : "cacheDensityProfileCoefficients"] = "0"; extremes.push_back("take-without-caches"); break;
        case 1: { std::string k = rng.pick({"extrapolation", "multigridCycle", "FMG_cycle", "residualNormType", "stencilDistributionMethod", "geometry", "problem", "alpha_coeff", "beta_coeff", "DirBC_Interior", "FMG"}); o[k] = rng.pick({"7", "-1", "99"}); expect_usage = true; extremes.push_back("invalid-enum-integer"); break; }
        case 2: o["absoluteTolerance"] = rng.pick({"-1", "0"}); o["relativeTolerance"] = rng.pick({"-1", "0"}); extremes.push_back("both-tolerances-disabled"); break;
        case 3: o[rng.coin() ? "absoluteTolerance" : "relativeTolerance"] = "-1"; extremes.push_back("one-tolerance-disabled"); break;
        case 4: o["maxIterations"] = rng.pick({"0", "1"}); extremes.push_back("maxIterations-" + o["maxIterations"]); break;
        case 5: o["preSmoothingSteps"] = "0"; o["postSmoothingSteps"] = rng.pick({"0", "1"}); extremes.push_back("no-presmoothing"); break;
        case 6: o["maxOpenMPThreads"] = rng.pick({"16", "33"}); o["threadReductionFactor"] = rng.pick({"1.0", "0.5", "0.05"}); extremes.push_back("many-threads"); break;
        case 7: o["maxLevels"] = rng.pick({"0", "1", "2", "9"}); extremes.push_back("maxLevels-" + o["maxLevels"]); break;
        case 8: o["nr_exp"] = rng.pick({"2", "1"}); o["ntheta_exp"] = rng.pick({"2", "3"}); extremes.push_back("non-coarsenable-grid"); break;
        case 9: if (rng.coin()) { o["R0"] = rng.pick({"1.3", "2.0"}); extremes.push_back("R0>=Rmax"); } else { o["R0"] = rng.pick({"0", "-0.1"}); extremes.push_back("R0<=0"); } break;
        case 10: o["anisotropic_factor"] = rng.pick({"1", "2", "3"}); o["nr_exp"] = "4"; if (rng.coin(0.5)) { o["alpha_jump"] = rng.pick({"0", "1.3", "2.0"}); extremes.push_back("anisotropic-radius-outside"); } else extremes.push_back("anisotropic"); break;
        case 11: o["paraview"] = "1"; extremes.push_back("paraview"); break;
        case 12: o["load_grid_file"] = "1"; if (rng.coin()) { o["file_grid_radii"] = "missing_r.txt"; o["file_grid_angles"] = "missing_t.txt"; } extremes.push_back("load-grid-file-missing"); break;
        case 13: o["write_grid_file"] = "1"; o["file_grid_radii"] = "r_out.txt"; o["file_grid_angles"] = "t_out.txt"; extremes.push_back("write-grid-file"); break;
        case 14: { std::string k = rng.pick({"nr_exp", "maxIterations", "R0", "divideBy2"}); o[k] = rng.pick({"abc", "", "1e"}); expect_usage = true; extremes.push_back("non-numeric-value"); break; }
        default: o["unknownOption"] = "1"; expect_usage = true; extremes.push_back("unknown-option"); break;
        }
    }
    // whether the parser itself must refuse is judged from the FINAL option map (a later mutation may have overridden an
    // earlier bad value): unknown option, non-numeric value of a numeric option, integer outside a oneof() list
    {
        auto is_num = [](const std::string& v) {
            if (v.empty())
                return false;
            char* end = nullptr;
            strtod(v.c_str(), &end);
            return end && *end == 0;
        };
        static const std::map<std::string, std::vector<std::string>> oneof = {
            {"extrapolation", {"0", "1", "2", "3"}}, {"multigridCycle", {"0", "1", "2"}}, {"FMG_cycle", {"0", "1", "2"}},
            {"residualNormType", {"0", "1", "2"}}, {"stencilDistributionMethod", {"0", "1"}}, {"geometry", {"0", "1", "2", "3"}},
            {"problem", {"0", "1", "2", "3"}}, {"alpha_coeff", {"0", "1", "2", "3"}}, {"beta_coeff", {"0", "1"}},
            {"DirBC_Interior", {"0", "1"}}, {"FMG", {"0", "1"}}, {"write_grid_file", {"0", "1"}}, {"load_grid_file", {"0", "1"}},
            {"cacheDensityProfileCoefficients", {"0", "1"}}, {"cacheDomainGeometry", {"0", "1"}}};
        expect_usage = o.count("unknownOption") > 0;
        for (auto& kv : o) {
            if (kv.first == "file_grid_radii" || kv.first == "file_grid_angles" || kv.first == "unknownOption")
                continue;
            if (!is_num(kv.second))
                expect_usage = true;
            auto it = oneof.find(kv.first);
            if (it != oneof.end() && std::find(it->second.begin(), it->second.end(), kv.second) == it->second.end())
                expect_usage = true;
        }
    }
    std::sort(extremes.begin(), extremes.end());
    extremes.erase(std::unique(extremes.begin(), extremes.end()), extremes.end());
    std::string ext;
    for (auto& e : extremes)
        ext += (ext.empty() ? "" : "+") + e;
    if (!valid_triple)
        ext += (ext.empty() ? "" : "+") + std::string("unsupported-problem-triple");
    if (ext.empty())
        ext = "none";
    std::vector<std::string> args;
    std::string cmdline;
    for (auto& kv : o) {
        args.push_back("--" + kv.first);
        args.push_back(kv.second);
        cmdline += " --" + kv.first + " " + (kv.second.empty() ? "''" : kv.second);
    }
    c.obs.params.str("extremes", ext).str("cmdline", cmdline);
    c.announce(ext);
    std::string scratch = c.arg("scratch", "/verif/.runs/C20/scratch") + "/c" + std::to_string((long)getpid());
    std::filesystem::create_directories(scratch);
    Run r = run_binary(exe, args, scratch, 300);
    std::string outcome, detail;
    std::smatch m;
    bool usage = r.err.find("usage:") != std::string::npos || r.err.find("Usage:") != std::string::npos;
    if (WIFEXITED(r.status) && WEXITSTATUS(r.status) == 0)
        outcome = "ran";
    else if (WIFEXITED(r.status) && WEXITSTATUS(r.status) == 1 && usage)
        outcome = "rejected-usage";
    else {
        if (r.timed_out)
            outcome = "timeout";
        else if (WIFSIGNALED(r.status))
            outcome = "signal-" + std::to_string(WTERMSIG(r.status));
        else
            outcome = "exit-" + std::to_string(WEXITSTATUS(r.status));
        if (std::regex_search(r.err, m, std::regex("ERROR: AddressSanitizer: ([A-Za-z-]+)")))
            detail = "asan:" + m[1].str();
        else if (std::regex_search(r.err, m, std::regex("runtime error: ([^\n]{0,60})")))
            detail = "ubsan:" + m[1].str();
        else if (std::regex_search(r.err, m, std::regex("Assertion `([^']{0,80})' failed")))
            detail = "assert:" + m[1].str();
        else if (std::regex_search(r.err, m, std::regex("what\\(\\):\\s*([^\n]{0,60})")))
            detail = "uncaught-exception:" + m[1].str();
        else if (r.err.find("terminate called") != std::string::npos)
            detail = "terminate";
        else
            detail = "no-diagnostic";
    }
    c.obs.top.str("outcome", outcome + (detail.empty() ? "" : "/" + detail));
    bool clean = outcome == "ran" || outcome == "rejected-usage";
    // the key names the failure (what was reported), not the option combination that happened to trigger it
    std::string key = (detail.empty() ? outcome : detail);
    if (outcome == "timeout")
        c.obs.info.b("timed_out", true);
    else
        c.obs.require("cli_outcome_clean", clean, key);
    if (expect_usage && clean)
        c.obs.require("parser_refuses_bad_value", outcome == "rejected-usage", ext);
    if (ext == "none")
        c.obs.require("valid_configuration_runs", outcome == "ran", "cli/" + std::string(prob_name(ps.prob)) + "_" + prof_name(ps.prof) + "_" + geom_name(ps.geom));
    if (outcome == "ran") {
        // a run that completes must not have printed NaN/inf statistics
        bool nanprint = std::regex_search(r.out, std::regex("[:=]\\s*-?(nan|inf)\\b", std::regex::icase));
        if (o["verbose"] == "1")
            c.obs.require("printed_statistics_finite", !nanprint, ext);
    }
    JObj sig;
    sig.str("outcome_class", clean ? outcome : "unclean").str("extremes", ext);
    c.obs.top.obj("sig", sig);
    c.obs.top.b("nontrivial", true);
    c.obs.info.str("stderr_tail", r.err.size() > 300 ? r.err.substr(r.err.size() - 300) : r.err);
    std::error_code ec;
    std::filesystem::remove_all(scratch, ec);
}

int main(int argc, char** argv) { return driver_main(argc, argv, "C20", run_case); }
