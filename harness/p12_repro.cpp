// C12: results are reproducible and do not depend on the thread count.
//  - every operator output / the solution after a fixed number of cycles for T in {1,2,3,4,8,16,32}: compared with T = 1
//    (re-association bound) inside the process, and hashed so that fresh processes can be compared bit for bit by the oracle;
//  - vector kernels against a long-double reference below and above the 10 000-element parallelisation threshold.
#include "common/driver.h"
#include "common/kit.h"
#include "common/ref_operator.h"
#include "common/solver_kit.h"
#include <cstring>

static uint64_t hash_vec(const Vector<double>& v)
{
    uint64_t h = 1469598103934665603ULL;
    for (int k = 0; k < v.size(); k++) {
        uint64_t b;
        double d = v[k];
        std::memcpy(&b, &d, 8);
        for (int s = 0; s < 8; s++) {
            h ^= (b >> (8 * s)) & 0xff;
            h *= 1099511628211ULL;
        }
    }
    return h;
}
static std::string hex(uint64_t h)
{
    char b[20];
    snprintf(b, sizeof b, "%016llx", (unsigned long long)h);
    return b;
}
static int delivered_threads(int T)
{
    int got = 0;
    omp_set_num_threads(T);
#pragma omp parallel
    {
#pragma omp single
        got = omp_get_num_threads();
    }
    return got;
}

static const int TS[] = {1, 2, 3, 4, 8, 16, 32};

static void operators_case(CaseCtx& c)
{
    Rng& rng = c.rng;
    GridOpts go;
    go.nth_multiple = 4;
    go.odd_nr = true;
    go.min_circ = 3;
    go.min_radial = 3;
    bool large = rng.coin(0.2); // above the 10 000-node threshold of the transfer operators / vector copies
    if (large) {
        go.nr_min = 81; go.nr_max = 97; go.nth_min = 128; go.nth_max = 160;
    }
    else {
        go.nr_min = 9; go.nr_max = 41; go.nth_min = 8; go.nth_max = 64;
    }
    go.Rmax = 1.3;
    go.R0 = rng.pick({1e-5, 1e-3, 0.1});
    GridSpec gs = gen_grid(rng, go);
    ProblemSpec ps = random_problem(rng, go.Rmax, true);
    bool dirbc = rng.coin();
    gs.describe(c.obs.params);
    ps.describe(c.obs.params);
    c.obs.params.b("DirBC_Interior", dirbc).str("kind", "operators").b("large", large);
    c.announce("operators");
    ProblemObjs po(ps);
    PolarGrid grid = gs.make();
    const int n = grid.numberOfNodes();
    Hierarchy H;
    H.build(grid, po, true, true, 2);
    Level& L0 = *H.levels[0];
    Level& L1 = *H.levels[1];
    const int nc = L1.grid().numberOfNodes();
    RefOp ref(grid, *po.geo, *po.prof, dirbc);
    Vector<double> u = random_vector(rng, n, 0), f = random_vector(rng, n, 0), xc = random_vector(rng, nc, 0);
    std::vector<ld> Au, absAu;
    ref.apply(u, Au, &absAu);

    bool mild = true;
    {
        double hmin = 1e300, hmax = 0, kmin = 1e300, kmax = 0;
        for (int i = 0; i + 1 < grid.nr(); i++) {
            hmin = std::min(hmin, grid.radialSpacing(i));
            hmax = std::max(hmax, grid.radialSpacing(i));
        }
        for (int j = 0; j < grid.ntheta(); j++) {
            kmin = std::min(kmin, grid.angularSpacing(j));
            kmax = std::max(kmax, grid.angularSpacing(j));
        }
        mild = hmax / hmin <= 100 && kmax / kmin <= 100;
    }
    JObj hashes;
    int min_delivered = 1 << 30;
    std::map<std::string, Vector<double>> base;
    for (int T : TS) {
        min_delivered = std::min(min_delivered, delivered_threads(T) - T);
        std::map<std::string, Vector<double>> out;
        {
            ResidualGive op(grid, L0.levelCache(), *po.geo, *po.prof, dirbc, T);
            Vector<double> r(n);
            op.computeResidual(r, f, u);
            out["residual_give"] = r;
        }
        {
            ResidualTake op(grid, L0.levelCache(), *po.geo, *po.prof, dirbc, T);
            Vector<double> r(n);
            op.computeResidual(r, f, u);
            out["residual_take"] = r;
        }
        {
            SmootherGive op(grid, L0.levelCache(), *po.geo, *po.prof, dirbc, T);
            Vector<double> x = u, t(n);
            assign(t, 0.0);
            op.smoothing(x, f, t);
            out["smoother_give"] = x;
        }
        {
            SmootherTake op(grid, L0.levelCache(), *po.geo, *po.prof, dirbc, T);
            Vector<double> x = u, t(n);
            assign(t, 0.0);
            op.smoothing(x, f, t);
            out["smoother_take"] = x;
        }
        {
            ExtrapolatedSmootherGive op(grid, L0.levelCache(), *po.geo, *po.prof, dirbc, T);
            Vector<double> x = u, t(n);
            assign(t, 0.0);
            op.extrapolatedSmoothing(x, f, t);
            out["extrapolated_smoother_give"] = x;
        }
        {
            ExtrapolatedSmootherTake op(grid, L0.levelCache(), *po.geo, *po.prof, dirbc, T);
            Vector<double> x = u, t(n);
            assign(t, 0.0);
            op.extrapolatedSmoothing(x, f, t);
            out["extrapolated_smoother_take"] = x;
        }
        if (!large) { // direct solver assembly with T threads on the coarse grid
            DirectSolverGiveCustomLU dg(L1.grid(), L1.levelCache(), *po.geo, *po.prof, dirbc, T);
            DirectSolverTakeCustomLU dt(L1.grid(), L1.levelCache(), *po.geo, *po.prof, dirbc, T);
            Vector<double> a = xc, b = xc;
            dg.solveInPlace(a);
            dt.solveInPlace(b);
            out["direct_solver_give"] = a;
            out["direct_solver_take"] = b;
        }
        {
            std::vector<int> tpl = {T, T};
            Interpolation I(tpl, dirbc);
            Vector<double> p(n), pe(n), pf(n), rr(nc), re(nc), inj(nc);
            I.applyProlongation(L1, L0, p, xc);
            I.applyExtrapolatedProlongation(L1, L0, pe, xc);
            I.applyFMGInterpolation(L1, L0, pf, xc);
            I.applyRestriction(L0, L1, rr, u);
            I.applyExtrapolatedRestriction(L0, L1, re, u);
            I.applyInjection(L0, L1, inj, u);
            out["prolongation"] = p;
            out["extrapolated_prolongation"] = pe;
            out["fmg_interpolation"] = pf;
            out["restriction"] = rr;
            out["extrapolated_restriction"] = re;
            out["injection"] = inj;
        }
        {
            LevelCache lc(grid, *po.prof, *po.geo, true, true); // built under omp_set_num_threads(T) from above
            out["cache_arr"] = lc.arr();
            out["cache_art"] = lc.art();
        }
        for (auto& kv : out) {
            hashes.str(kv.first + "@T" + std::to_string(T), hex(hash_vec(kv.second)));
            if (T == 1) {
                base[kv.first] = kv.second;
                continue;
            }
            const Vector<double>& b = base[kv.first];
            double worst = 0, scale = 0;
            bool is_res = kv.first.rfind("residual", 0) == 0;
            for (int k = 0; k < b.size(); k++)
                scale = std::max(scale, std::fabs(b[k]));
            for (int k = 0; k < b.size(); k++) {
                double s = is_res ? (double)(absAu[k] + fabsl((ld)f[k])) : std::max(scale, 1e-300);
                worst    = std::max(worst, std::fabs(kv.second[k] - b[k]) / s);
            }
            bool exact_op = kv.first == "injection" || kv.first.find("prolongation") != std::string::npos || kv.first == "fmg_interpolation" || kv.first.rfind("cache", 0) == 0 || kv.first.find("restriction") != std::string::npos;
            // line / sparse solves amplify a one-ulp difference of the assembled entries by their condition (grows like Rmax/R0)
            const double amp = std::max(1.0, 1e-3 * go.Rmax / grid.radius(0));
            bool is_direct = kv.first.rfind("direct_solver", 0) == 0;
            if (exact_op)
                c.obs.check("thread_count_changes_gather_operator", worst, kv.first + "/T" + std::to_string(T));
            else if (is_res)
                c.obs.check("thread_count_residual", worst, kv.first + "/T" + std::to_string(T));
            else if (mild) // forward differences of line / sparse solves are conditioning-bound: judged on mild meshes only
                c.obs.check(is_direct ? "thread_count_direct_solver" : "thread_count_smoother", worst / amp, kv.first + "/T" + std::to_string(T));
        }
    }
    c.obs.top.obj("hashes", hashes);
    JObj sig;
    sig.str("kind", "operators").str("geom", geom_name(ps.geom)).b("dirbc", dirbc).b("large", large).i("circ_mod3", grid.numberSmootherCircles() % 3).i("nt_mod3", grid.ntheta() % 3);
    c.obs.top.obj("sig", sig);
    c.obs.top.b("nontrivial", min_delivered >= 0);
    c.obs.info.i("threads_shortfall", min_delivered);
}

static void solver_case(CaseCtx& c)
{
    Rng& rng = c.rng;
    SolverConfig cfg;
    cfg.ps = random_solver_problem(rng, true, true);
    cfg.R0 = rng.pick({1e-5, 1e-3});
    cfg.nr_exp = rng.pick({4, 4, 5});
    cfg.divideBy2 = (cfg.nr_exp == 5 && rng.coin(0.3)) ? 1 : 0; // 65 x 128: levels above the 10 000-node threshold
    cfg.dirbc = rng.coin();
    cfg.strategy = rng.range(0, 1);
    if (cfg.strategy == 1) {
        cfg.cache_prof = rng.coin();
        cfg.cache_geo = rng.coin();
    }
    cfg.extrapolation = rng.range(0, 3);
    cfg.cycle = rng.range(0, 2);
    cfg.fmg = rng.coin(0.4);
    cfg.fmg_iters = rng.range(0, 2);
    cfg.fmg_cycle = rng.range(0, 2);
    cfg.maxIterations = rng.range(1, 6);
    cfg.abs_tol = -1;
    cfg.rel_tol = -1; // no norm decides anything
    cfg.with_exact = false;
    cfg.thread_reduction = rng.pick({1.0, 0.7, 0.5});
    // half of the cases run the convergence-check path as well (residual norms incl. the extrapolated residual, exact
    // errors): an unreachable relative tolerance keeps the number of cycles fixed, the recorded histories become outputs
    const bool with_statistics = rng.coin(0.5);
    if (with_statistics) {
        cfg.rel_tol = 1e-300;
        cfg.norm = rng.range(0, 2);
        cfg.with_exact = true;
    }
    cfg.describe(c.obs.params);
    c.obs.params.str("kind", "solver").b("with_statistics", with_statistics);
    c.announce("solver");
    JObj hashes;
    Vector<double> base;
    std::vector<double> base_stat;
    size_t base_nres = 0;
    int min_delivered = 1 << 30;
    for (int T : TS) {
        min_delivered = std::min(min_delivered, delivered_threads(T) - T);
        SolverConfig a = cfg;
        a.threads = T;
        auto g = a.make_api();
        omp_set_num_threads(T); // the pointer-route constructor leaves the runtime at the parser default of 1 thread
        g->setup();
        g->solve();
        Vector<double> u = g->solution();
        hashes.str("solution@T" + std::to_string(T), hex(hash_vec(u)));
        std::vector<double> stat;
        if (with_statistics) {
            for (double v : GMGPolarVerifAccess::residual_norms(*g))
                stat.push_back(v);
            const size_t nres = stat.size();
            for (auto& e : GMGPolarVerifAccess::exact_errors(*g)) {
                stat.push_back(e.first);
                stat.push_back(e.second);
            }
            stat.push_back(g->meanResidualReductionFactor());
            Vector<double> sv((int)stat.size());
            for (size_t k = 0; k < stat.size(); k++)
                sv[(int)k] = stat[k];
            hashes.str("statistics@T" + std::to_string(T), hex(hash_vec(sv)));
            if (T == 1) {
                base_stat = stat;
                base_nres = nres;
            }
            else {
                double worst = (stat.size() == base_stat.size()) ? 0.0 : 1.0;
                // (the reduction factor, last entry, is a root of a ratio that may sit on the rounding floor: hashed only)
                for (size_t k = 0; k + 1 < stat.size() && k + 1 < base_stat.size(); k++) {
                    // residual norms relative to the initial one, errors relative to the first recorded pair, factor absolute
                    double ref = k < base_nres ? base_stat[0] : base_stat[base_nres + (k - base_nres) % 2];
                    worst = std::max(worst, std::fabs(stat[k] - base_stat[k]) / std::max(std::fabs(ref), 1e-300));
                }
                c.obs.check("thread_count_statistics", worst, std::string(cfg.strategy ? "give" : "take") + "/T" + std::to_string(T));
            }
        }
        if (T == 1) {
            base = u;
            continue;
        }
        double s = 0, d = 0;
        for (int k = 0; k < u.size(); k++) {
            s = std::max(s, std::fabs(base[k]));
            d = std::max(d, std::fabs(u[k] - base[k]));
        }
        c.obs.check("thread_count_solution_after_k_cycles", s > 0 ? d / s : (d > 0 ? 1.0 : 0.0), std::string(cfg.strategy ? "give" : "take") + "/T" + std::to_string(T));
    }
    c.obs.top.obj("hashes", hashes);
    JObj sig;
    sig.str("kind", "solver").str("strategy", cfg.strategy ? "give" : "take").i("extrap", cfg.extrapolation).i("cycle", cfg.cycle).b("fmg", cfg.fmg).num("reduction", cfg.thread_reduction).i("its", cfg.maxIterations);
    c.obs.top.obj("sig", sig);
    c.obs.top.b("nontrivial", min_delivered >= 0);
}

static void kernels_case(CaseCtx& c)
{
    Rng& rng = c.rng;
    int n = rng.pick({1, 7, 9999, 10000, 10001, 65537, 20011});
    int vk = rng.range(0, 1);
    c.obs.params.str("kind", "kernels").i("n", n).str("vec_kind", vec_kind_name(vk));
    c.announce("kernels");
    Vector<double> x = random_vector(rng, n, vk), y = random_vector(rng, n, vk);
    double alpha = rng.uniform(-2, 2), beta = rng.uniform(-2, 2);
    ld dot = 0, adot = 0, l1 = 0, l2 = 0, inf = 0;
    for (int k = 0; k < n; k++) {
        dot += (ld)x[k] * y[k];
        adot += fabsl((ld)x[k] * y[k]);
        l1 += fabsl((ld)x[k]);
        l2 += (ld)x[k] * x[k];
        inf = std::max(inf, fabsl((ld)x[k]));
    }
    const double eps = 2.220446049250313e-16;
    JObj hashes;
    for (int T : {1, 2, 3, 4, 5, 7, 8, 12, 16, 24, 32}) {
        omp_set_num_threads(T);
        std::string t = "/T" + std::to_string(T) + (n > 10000 ? "/parallel" : "/serial");
        auto bound = [&](ld sumabs) { return 4.0 * n * eps * (double)sumabs; };
        c.obs.check("kernel_dot_product", adot > 0 ? std::fabs((double)((ld)dot_product(x, y) - dot)) / bound(adot) : 0.0, t);
        c.obs.check("kernel_l1_norm", l1 > 0 ? std::fabs((double)((ld)l1_norm(x) - l1)) / bound(l1) : 0.0, t);
        c.obs.check("kernel_l2_norm_squared", l2 > 0 ? std::fabs((double)((ld)l2_norm_squared(x) - l2)) / bound(l2) : 0.0, t);
        c.obs.require("kernel_infinity_norm_exact", infinity_norm(x) == (double)inf, t);
        // element-wise kernels are exact per element (one rounding)
        Vector<double> a = x, b = x, s = x, m = x, z(n);
        add(a, y);
        subtract(b, y);
        linear_combination(s, alpha, y, beta);
        multiply(m, alpha);
        assign(z, beta);
        bool ok_add = true, ok_sub = true, ok_lc = true, ok_mul = true, ok_as = true, ok_cp = true;
        Vector<double> cp(x);
        for (int k = 0; k < n; k++) {
            ok_add = ok_add && a[k] == x[k] + y[k];
            ok_sub = ok_sub && b[k] == x[k] - y[k];
            ok_lc  = ok_lc && std::fabs(s[k] - (alpha * x[k] + beta * y[k])) <= 2 * eps * (std::fabs(alpha * x[k]) + std::fabs(beta * y[k]));
            ok_mul = ok_mul && m[k] == x[k] * alpha;
            ok_as  = ok_as && z[k] == beta;
            ok_cp  = ok_cp && std::memcmp(&cp[k], &x[k], 8) == 0;
        }
        c.obs.require("kernel_elementwise_exact", ok_add && ok_sub && ok_lc && ok_mul && ok_as && ok_cp, std::string(ok_add ? "" : "add") + (ok_sub ? "" : "subtract") + (ok_lc ? "" : "linear_combination") + (ok_mul ? "" : "multiply") + (ok_as ? "" : "assign") + (ok_cp ? "" : "copy") + t);
        hashes.str("elementwise@T" + std::to_string(T), hex(hash_vec(a) ^ hash_vec(s) ^ hash_vec(m)));
    }
    c.obs.top.obj("hashes", hashes);
    JObj sig;
    sig.str("kind", "kernels").i("n", n).str("vec", vec_kind_name(vk));
    c.obs.top.obj("sig", sig);
    c.obs.top.b("nontrivial", n > 1);
}

static void run_case(CaseCtx& c)
{
    int kind = (int)(c.index % 4); // 0,1: operators; 2: solver; 3: kernels
    if (kind <= 1)
        operators_case(c);
    else if (kind == 2)
        solver_case(c);
    else
        kernels_case(c);
}

int main(int argc, char** argv) { return driver_main(argc, argv, "C12", run_case); }
