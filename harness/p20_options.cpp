// C20 (API route): every option combination is either rejected with an exception or runs setup()+solve() to completion;
// the statistics reported afterwards are well defined. Crashes / sanitizer reports / failed assertions kill the worker and
// are attributed to the case by the runner.
#include "common/driver.h"
#include "common/solver_kit.h"
#include <filesystem>
#include <unistd.h>

static void run_case(CaseCtx& c)
{
    Rng& rng = c.rng;
    SolverConfig cfg;
    cfg.ps = random_solver_problem(rng, true, true);
    cfg.R0 = rng.pick({1e-5, 1e-5, 1e-8, 1e-2});
    cfg.nr_exp = rng.pick({3, 3, 4});
    cfg.ntheta_exp = rng.pick({-1, -1, 3, 4});
    cfg.divideBy2 = 0;
    cfg.dirbc = rng.coin();
    cfg.strategy = rng.range(0, 1);
    if (cfg.strategy == 1) {
        cfg.cache_prof = rng.coin();
        cfg.cache_geo = rng.coin();
    }
    cfg.extrapolation = rng.range(0, 3);
    cfg.cycle = rng.range(0, 2);
    cfg.fmg = rng.coin(0.3);
    cfg.fmg_iters = rng.range(0, 2);
    cfg.fmg_cycle = rng.range(0, 2);
    cfg.pre = rng.range(1, 2);
    cfg.post = rng.range(1, 2);
    cfg.maxLevels = -1;
    cfg.maxIterations = rng.pick({5, 20, 150});
    cfg.norm = rng.range(0, 2);
    cfg.threads = rng.pick({1, 1, 4});
    cfg.with_exact = rng.coin(0.7);
    bool paraview = false;
    // raw overrides applied through the setters after apply_options (static_cast for invalid enum integers)
    int raw_extrap = -100, raw_cycle = -100, raw_fmg_cycle = -100, raw_norm = -100, raw_strategy = -100;
    bool load_files = false, write_files = false;
    std::vector<std::string> extremes;
    int nmut = rng.range(0, 3);
    for (int m = 0; m < nmut; m++) {
        switch (rng.range(0, 17)) {
        case 0: cfg.strategy = 0; cfg.cache_prof = rng.coin(); cfg.cache_geo = !cfg.cache_prof || rng.coin(); if (cfg.cache_prof && cfg.cache_geo) cfg.cache_geo = false; extremes.push_back("take-without-caches"); break;
        case 1: raw_extrap = rng.pick({4, 7, -1}); extremes.push_back("invalid-extrapolation"); break;
        case 2: raw_cycle = rng.pick({3, 5, -1}); extremes.push_back("invalid-cycle"); break;
        case 3: raw_fmg_cycle = rng.pick({3, 9, -2}); cfg.fmg = true; cfg.fmg_iters = std::max(1, cfg.fmg_iters); extremes.push_back("invalid-fmg-cycle"); break;
        case 4: raw_norm = rng.pick({3, 4, -1}); extremes.push_back("invalid-norm"); break;
        case 5: raw_strategy = rng.pick({2, 3, -1}); extremes.push_back("invalid-strategy"); break;
        case 6: cfg.abs_tol = rng.pick({-1.0, 0.0}); cfg.rel_tol = rng.pick({-1.0, 0.0}); extremes.push_back("both-tolerances-disabled"); break;
        case 7: if (rng.coin()) cfg.abs_tol = rng.pick({-1.0, 0.0}); else cfg.rel_tol = rng.pick({-1.0, 0.0}); extremes.push_back("one-tolerance-disabled"); break;
        case 8: cfg.maxIterations = rng.pick({0, 0, 1}); extremes.push_back(cfg.maxIterations == 0 ? "maxIterations-0" : "maxIterations-1"); break;
        case 9: cfg.pre = 0; cfg.post = rng.pick({0, 0, 1}); extremes.push_back(cfg.post == 0 ? "no-smoothing" : "no-presmoothing"); break;
        case 10: cfg.threads = rng.pick({16, 33}); cfg.thread_reduction = rng.pick({1.0, 0.5, 0.3, 0.05}); extremes.push_back("many-threads"); break;
        case 11: cfg.maxLevels = rng.pick({0, 1, 2, 2, 9}); extremes.push_back("maxLevels-" + std::to_string(cfg.maxLevels)); break;
        case 12: cfg.nr_exp = rng.pick({2, 1}); cfg.ntheta_exp = rng.pick({2, 3, -1}); extremes.push_back("non-coarsenable-grid"); break;
        case 13: cfg.nr_exp = 3; cfg.ntheta_exp = 3; cfg.maxLevels = -1; extremes.push_back("smallest-two-level-grid"); break;
        case 14: if (rng.coin()) { cfg.R0 = rng.pick({1.3, 2.0}); extremes.push_back("R0>=Rmax"); } else { cfg.R0 = rng.pick({0.0, -0.1}); extremes.push_back("R0<=0"); } break;
        case 15: cfg.aniso = rng.pick({1, 2, 3, 5, -1}); cfg.nr_exp = 4; if (rng.coin(0.5)) { cfg.ps.alpha_jump = rng.pick({0.0, 1.3, 2.0, -0.5}); extremes.push_back("anisotropic-radius-outside"); } else extremes.push_back("anisotropic"); break;
        case 16: paraview = true; extremes.push_back(cfg.with_exact ? "paraview" : "paraview-without-exact-solution"); break;
        default: if (rng.coin()) { load_files = true; extremes.push_back("load-grid-file-missing"); } else { write_files = true; extremes.push_back("write-grid-file"); } break;
        }
    }
    // 30%: only the options that differ from their documented defaults are set (the constructor's defaults must be in force)
    cfg.leave_defaults = rng.coin(0.3);
    // history: in 20% of the cases the object has been set up and solved before with another (valid) inner radius
    const bool earlier_run = rng.coin(0.2);
    const double earlier_R0 = cfg.R0 == 1e-2 ? 1e-5 : 1e-2;
    std::string ext;
    std::sort(extremes.begin(), extremes.end());
    extremes.erase(std::unique(extremes.begin(), extremes.end()), extremes.end());
    for (auto& e : extremes)
        ext += (ext.empty() ? "" : "+") + e;
    if (ext.empty())
        ext = "none";
    cfg.describe(c.obs.params);
    c.obs.params.str("extremes", ext).b("paraview", paraview).b("earlier_setup_and_solve_on_other_R0", earlier_run).b("only_non_default_options_set", cfg.leave_defaults);
    c.obs.params.i("raw_extrapolation", raw_extrap).i("raw_cycle", raw_cycle).i("raw_fmg_cycle", raw_fmg_cycle).i("raw_norm", raw_norm).i("raw_strategy", raw_strategy);
    c.announce(ext);

    // scratch directory: paraview / grid files are written into the working directory
    std::string scratch = c.arg("scratch", "/verif/.runs/C20/scratch") + "/w" + std::to_string((long)getpid());
    std::filesystem::create_directories(scratch);
    if (chdir(scratch.c_str()) != 0)
        throw std::runtime_error("cannot enter scratch directory");

    std::string outcome = "ran";
    int its = -1;
    double rho = 0, e2 = 0, einf = 0;
    bool has_err = false, finite_solution = true, have_indep = false;
    double indep_e2 = 0, indep_einf = 0;
    int n = 0, nlev = 0;
    try {
        std::unique_ptr<GMGPolar> g = cfg.make_api();
        if (raw_extrap != -100)
            g->extrapolation(static_cast<ExtrapolationType>(raw_extrap));
        if (raw_cycle != -100)
            g->multigridCycle(static_cast<MultigridCycleType>(raw_cycle));
        if (raw_fmg_cycle != -100)
            g->FMG_cycle(static_cast<MultigridCycleType>(raw_fmg_cycle));
        if (raw_norm != -100)
            g->residualNormType(static_cast<ResidualNormType>(raw_norm));
        if (raw_strategy != -100)
            g->stencilDistributionMethod(static_cast<StencilDistributionMethod>(raw_strategy));
        g->paraview(paraview);
        if (load_files) {
            g->load_grid_file(true);
            g->file_grid_radii(rng.coin() ? "" : "missing_radii.txt");
            g->file_grid_angles(rng.coin() ? "" : "missing_angles.txt");
        }
        if (write_files) {
            g->write_grid_file(true);
            g->file_grid_radii("radii_out.txt");
            g->file_grid_angles("angles_out.txt");
        }
        if (earlier_run) { // the same object has set up and solved on another inner radius before (same node counts)
            g->R0(earlier_R0);
            g->setup();
            g->solve();
            g->R0(cfg.R0);
        }
        g->setup();
        g->solve();
        its  = g->numberOfIterations();
        rho  = g->meanResidualReductionFactor();
        nlev = GMGPolarVerifAccess::number_of_levels(*g);
        const Vector<double>& u = g->solution();
        n = u.size();
        for (int k = 0; k < n; k++)
            finite_solution = finite_solution && std::isfinite(u[k]) && std::fabs(u[k]) < 1e50; // 1e50: norms square it
        if (cfg.with_exact) {
            auto a = g->exactErrorWeightedEuclidean();
            auto b = g->exactErrorInfinity();
            has_err = a.has_value() && b.has_value();
            if (has_err) {
                e2   = *a;
                einf = *b;
            }
            // The errors are recorded before each cycle: after a stop by tolerance the last record belongs to the returned
            // solution, so it can be recomputed from solution() and the exact solution alone.
            if (has_err && its < cfg.maxIterations && finite_solution) {
                auto ex = make_exact(cfg.ps);
                const PolarGrid& grid = g->grid();
                long double s2 = 0, mx = 0;
                for (int i = 0; i < grid.nr(); i++)
                    for (int j = 0; j < grid.ntheta(); j++) {
                        double r = grid.radius(i), t = grid.theta(j);
                        long double d = (long double)ex->exact_solution(r, t, std::sin(t), std::cos(t)) - (long double)u[grid.index(i, j)];
                        s2 += d * d;
                        mx = std::max(mx, fabsl(d));
                    }
                indep_e2   = (double)(sqrtl(s2) / sqrtl((long double)n));
                indep_einf = (double)mx;
                have_indep = true;
            }
        }
    }
    catch (const std::exception& e) {
        std::string w = e.what();
        outcome = "rejected-exception:" + w.substr(0, 60);
    }
    c.obs.top.str("outcome", outcome);
    bool ran = outcome == "ran";
    // inside the plain configuration set (no extreme option) the run must complete with a finite solution
    if (ext == "none") {
        c.obs.require("valid_configuration_runs", ran, cfg.ps.name());
        if (ran)
            c.obs.require("valid_configuration_finite_solution", finite_solution, cfg.ps.name());
    }
    // documented rejections must be rejections
    bool must_reject = ext.find("take-without-caches") != std::string::npos || ext.find("invalid-") != std::string::npos || ext.find("non-coarsenable-grid") != std::string::npos ||
                       ext.find("maxLevels-0") != std::string::npos || ext.find("maxLevels-1") != std::string::npos;
    // (an invalid FMG cycle is only consulted when FMG start-up cycles actually run; an invalid enum that is never read may run)
    // judged from the FINAL option values (a later mutation may have overridden an earlier one):
    //  - take strategy without both caches (only if the strategy integer that reaches setup() is the take value);
    //  - a uniform grid with nr_exp <= 2 (nr <= 5) or ntheta_exp in 0..2 (ntheta <= 4) cannot give two levels.
    const bool final_take_without_caches = raw_strategy == -100 && cfg.strategy == 0 && !(cfg.cache_prof && cfg.cache_geo);
    const bool final_non_coarsenable = (cfg.aniso == 0 && cfg.nr_exp <= 2) || (cfg.ntheta_exp >= 0 && cfg.ntheta_exp <= 2);
    if (final_take_without_caches || final_non_coarsenable)
        c.obs.require("documented_rejection_is_rejected", !ran, std::string(final_take_without_caches ? "take-without-caches" : "") + (final_non_coarsenable ? "non-coarsenable-grid" : ""));
    if (ran) {
        // statistics are well defined
        bool its_ok = its >= 0 && its <= std::max(cfg.maxIterations, 0);
        c.obs.require("iterations_in_range", its_ok, ext);
        // a configuration without any smoothing (or otherwise outside C01's set) may legitimately diverge to inf/NaN: the
        // statistics of such a solve are still functions of it, but not finite; finiteness is required while the solution is
        // finite and bounded by 1e50 (a diverged iterate of 1e160 overflows in the squared norms)
        if (its > 0 && finite_solution)
            c.obs.require("reduction_factor_finite", std::isfinite(rho) && rho >= 0, ext);
        if (cfg.with_exact && has_err && finite_solution)
            c.obs.require("exact_errors_finite", std::isfinite(e2) && std::isfinite(einf) && e2 >= 0 && einf >= 0, ext);
        if (cfg.with_exact && its > 0)
            c.obs.require("exact_errors_present_after_iterations", has_err, ext);
        if (have_indep && indep_e2 > 0 && indep_einf > 0) {
            const std::string hk = std::string(earlier_run ? "after-earlier-setup-on-other-R0" : "first-setup") + (cfg.threads > 1 ? "/threads" : "/one-thread");
            c.obs.check("reported_errors_describe_returned_solution", std::max(std::fabs(e2 - indep_e2) / indep_e2, std::fabs(einf - indep_einf) / indep_einf), hk);
        }
    }
    (void)must_reject;
    // statistics for the cross-build differential (zero-init vs pattern-init): printed with full precision
    JObj st;
    st.str("outcome", outcome).i("iterations", its).num("rho", ran && its > 0 ? rho : 0.0).b("has_err", has_err).num("e2", e2).num("einf", einf).b("finite_solution", finite_solution).i("n", n);
    c.obs.top.obj("stats", st);
    JObj sig;
    sig.str("outcome_class", ran ? "ran" : "rejected").str("extremes", ext);
    c.obs.top.obj("sig", sig);
    c.obs.top.b("nontrivial", true);
    c.obs.info.i("levels", nlev);
    // leave no files behind
    std::error_code ec;
    if (chdir("/") == 0)
        std::filesystem::remove_all(scratch, ec);
}

int main(int argc, char** argv) { return driver_main(argc, argv, "C20", run_case); }
