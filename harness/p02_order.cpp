// C02: second-order accuracy; implicit extrapolation raises the order (errors computed by the harness from solution()).
#include "common/driver.h"
#include "common/solver_kit.h"

struct Err { double l2, inf; int its; int nr, nt; bool converged; };

static Err solve_and_measure(const SolverConfig& cfg, const ExactSolution& ex)
{
    auto g = cfg.make_api();
    g->setup();
    g->solve();
    const PolarGrid& grid = g->grid();
    const Vector<double>& u = g->solution();
    long double s2 = 0;
    double mx = 0;
    for (int i = 0; i < grid.nr(); i++)
        for (int j = 0; j < grid.ntheta(); j++) {
            double th = grid.theta(j);
            double e  = ex.exact_solution(grid.radius(i), th, std::sin(th), std::cos(th)) - u[grid.index(i, j)];
            s2 += (long double)e * e;
            mx = std::max(mx, std::fabs(e));
        }
    Err r;
    r.l2 = std::sqrt((double)(s2 / grid.numberOfNodes()));
    r.inf = mx;
    r.its = g->numberOfIterations();
    r.nr = grid.nr();
    r.nt = grid.ntheta();
    r.converged = r.its < cfg.maxIterations;
    return r;
}

static void run_case(CaseCtx& c)
{
    Rng& rng = c.rng;
    // enumerate the 3 x 3 x 7 x 2 problem tuples deterministically from the case index, randomise the rest
    long long idx = (c.index * 5 + (long long)(c.seed % 126)) % 126; // stride 5 is coprime to 126: any 126 consecutive cases cover every tuple
    SolverConfig cfg;
    cfg.ps.Rmax = 1.3;
    cfg.ps.geom = (int)(idx % 3);
    cfg.ps.prob = (int)((idx / 3) % 3);
    cfg.ps.prof = (int)((idx / 9) % 7);
    cfg.dirbc   = (idx / 63) % 2;
    random_geom_params(rng, cfg.ps, true); // default geometry parameters of the shipped scripts
    cfg.ps.alpha_jump = documented_alpha_jump(cfg.ps.prof, cfg.ps.Rmax);
    cfg.R0 = cfg.dirbc ? rng.pick({1e-5, 1e-3, 1e-2, 0.5}) : rng.pick({1e-5, 1e-5, 1e-8}); // 0.5: a thick annulus (Dirichlet on both circles) // across-origin is a discretisation for R0 -> 0 only
    cfg.strategy = rng.range(0, 1);
    if (cfg.strategy == 1) {
        cfg.cache_prof = rng.coin();
        cfg.cache_geo = rng.coin();
    }
    cfg.nr_exp = 4;
    cfg.ntheta_exp = -1;
    cfg.aniso = rng.coin(0.15) ? 2 : 0;
    cfg.cycle = rng.range(0, 2);
    cfg.maxLevels = rng.pick({-1, -1, -1, 2, 3}); // the order is a property of the discretisation, not of the hierarchy depth
    cfg.fmg = false; // with FMG the initial residual is already tiny and a relative tolerance of 1e-10 sits below the rounding floor
    cfg.maxIterations = 200;
    cfg.abs_tol = -1;
    cfg.rel_tol = 1e-10;
    cfg.norm = 1;
    cfg.threads = 1;
    cfg.with_exact = false;
    const int kmax = c.thorough() ? 3 : 2; // divideBy2 up to 2 (65x128) quick, 3 (129x256) thorough
    cfg.describe(c.obs.params);
    c.announce(cfg.ps.name());
    auto ex = make_exact(cfg.ps);

    std::vector<Err> plain, extr;
    for (int k = 0; k <= kmax; k++) {
        SolverConfig a = cfg;
        a.divideBy2 = k;
        a.extrapolation = 0;
        plain.push_back(solve_and_measure(a, *ex));
        a.extrapolation = 1;
        extr.push_back(solve_and_measure(a, *ex));
    }
    // algebraic error negligible? re-solve the finest grids with a 100x looser tolerance: the error must not move by > 1%
    bool alg_ok = true;
    {
        SolverConfig a = cfg;
        a.divideBy2 = kmax;
        a.rel_tol = 1e-8;
        a.extrapolation = 0;
        Err p2 = solve_and_measure(a, *ex);
        a.extrapolation = 1;
        Err e2 = solve_and_measure(a, *ex);
        alg_ok = std::fabs(p2.l2 / plain[kmax].l2 - 1) < 0.01 && std::fabs(e2.l2 / extr[kmax].l2 - 1) < 0.01 && std::fabs(e2.inf / extr[kmax].inf - 1) < 0.01;
    }
    bool all_conv = true;
    for (auto& e : plain)
        all_conv = all_conv && e.converged;
    for (auto& e : extr)
        all_conv = all_conv && e.converged;
    std::vector<double> pl2, pinf, xl2, xinf, el2p, el2x;
    for (auto& e : plain) {
        pl2.push_back(e.l2);
        pinf.push_back(e.inf);
    }
    for (auto& e : extr) {
        xl2.push_back(e.l2);
        xinf.push_back(e.inf);
    }
    c.obs.info.nums("plain_l2", pl2).nums("plain_inf", pinf).nums("extrap_l2", xl2).nums("extrap_inf", xinf);
    c.obs.info.b("algebraic_error_negligible", alg_ok).b("all_converged", all_conv);
    {
        std::vector<int> ip, ix;
        for (auto& e : plain)
            ip.push_back(e.its);
        for (auto& e : extr)
            ix.push_back(e.its);
        c.obs.info.ints("iterations_plain", ip).ints("iterations_extrapolated", ix);
    }
    std::string cls = cfg.ps.name() + (cfg.dirbc ? "/dirbc" : "/across");
    // a run that stalls on the rounding floor above rel 1e-10 is fine as long as the error no longer moves (alg_ok)
    bool judged = alg_ok && extr[kmax].l2 > 100 * 2.2e-16;
    if (judged) {
        for (int k = 0; k < kmax; k++) {
            if (plain[k + 1].nr < 65)
                continue; // only pairs whose finer grid is at least 65 x 128 are judged
            std::string pk = cls + "/refine" + std::to_string(k) + "to" + std::to_string(k + 1);
            c.obs.check("neg_order_plain_l2", -std::log2(plain[k].l2 / plain[k + 1].l2), pk);
            c.obs.check("neg_order_plain_inf", -std::log2(plain[k].inf / plain[k + 1].inf), pk);
            c.obs.check("neg_order_extrapolated_l2", -std::log2(extr[k].l2 / extr[k + 1].l2), pk);
            c.obs.check("neg_order_extrapolated_inf", -std::log2(extr[k].inf / extr[k + 1].inf), pk);
        }
        for (int k = 0; k <= kmax; k++) {
            if (plain[k].nr < 65)
                continue;
            c.obs.check("extrapolated_over_plain_error_l2", extr[k].l2 / plain[k].l2, cls + "/grid" + std::to_string(plain[k].nr));
            c.obs.check("extrapolated_over_plain_error_inf", extr[k].inf / plain[k].inf, cls + "/grid" + std::to_string(plain[k].nr));
        }
    }
    JObj sig;
    sig.str("geom", geom_name(cfg.ps.geom)).str("prob", prob_name(cfg.ps.prob)).str("prof", prof_name(cfg.ps.prof)).b("dirbc", cfg.dirbc).str("strategy", cfg.strategy ? "give" : "take");
    c.obs.top.obj("sig", sig);
    c.obs.top.b("nontrivial", judged);
}

int main(int argc, char** argv) { return driver_main(argc, argv, "C02", run_case); }
