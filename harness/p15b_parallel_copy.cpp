// C15 (addition): copies of large vectors made under every OpenMP team situation -- at top level, inside an active parallel
// region (each thread copies a shared source into a private object: the inner team has one thread), with fewer threads
// available than omp_get_max_threads() reports (OMP_THREAD_LIMIT, set by the stage), and with dynamic adjustment on.
#include "common/driver.h"
#include "repo_include.h"
#include <cstring>

static bool same(const Vector<double>& a, const Vector<double>& b)
{
    if (a.size() != b.size())
        return false;
    for (int k = 0; k < a.size(); k++)
        if (std::memcmp(&a[k], &b[k], sizeof(double)) != 0)
            return false;
    return true;
}

static void run_case(CaseCtx& c)
{
    Rng& rng = c.rng;
    int n = rng.pick({3, 9999, 10000, 10001, 12289, 20003, 30000, 65536});
    int T = rng.pick({1, 2, 3, 4, 8, 16});
    bool dynamic = rng.coin(0.3);
    c.obs.params.i("n", n).i("T", T).b("omp_dynamic", dynamic);
    c.announce("n" + std::to_string(n) + "/T" + std::to_string(T));
    omp_set_dynamic(dynamic ? 1 : 0);
    omp_set_num_threads(T);
    Vector<double> src(n), other(n / 2 + 1);
    for (int k = 0; k < n; k++)
        src[k] = rng.uniform(-1, 1) + k;
    for (int k = 0; k < other.size(); k++)
        other[k] = -7.0;
    std::string cls = std::string(n > 10000 ? "above-threshold" : "below-threshold");
    // top level
    {
        Vector<double> a(src);
        Vector<double> b(n), d = other;
        for (int k = 0; k < n; k++)
            b[k] = 123.0;
        b = src;
        d = src; // different size target
        c.obs.require("copy_equals_source", same(a, src), cls + "/top-level/copy-construct");
        c.obs.require("copy_equals_source", same(b, src), cls + "/top-level/copy-assign-same-size");
        c.obs.require("copy_equals_source", same(d, src), cls + "/top-level/copy-assign-other-size");
    }
    // inside an active parallel region: one private copy per thread
    int bad_ctor = 0, bad_assign = 0, team = 0;
#pragma omp parallel reduction(+ : bad_ctor, bad_assign)
    {
#pragma omp single
        team = omp_get_num_threads();
        Vector<double> p(src);
        if (!same(p, src))
            bad_ctor++;
        Vector<double> q(n);
        for (int k = 0; k < n; k++)
            q[k] = -1.0;
        q = src;
        if (!same(q, src))
            bad_assign++;
    }
    c.obs.require("copy_equals_source", bad_ctor == 0, cls + "/inside-parallel-region/copy-construct");
    c.obs.require("copy_equals_source", bad_assign == 0, cls + "/inside-parallel-region/copy-assign");
    // source untouched, and independent afterwards
    {
        Vector<double> a(src);
        a[0] += 1.0;
        c.obs.require("copy_is_independent", a[0] != src[0] && same(src, src), cls);
    }
    const char* lim = getenv("OMP_THREAD_LIMIT");
    JObj sig;
    sig.i("n", n).i("T", T).b("dynamic", dynamic).str("thread_limit", lim ? lim : "none").i("team", team);
    c.obs.top.obj("sig", sig);
    c.obs.top.b("nontrivial", n > 10000 && T > 1);
    c.obs.info.i("team_inside_region", team).i("max_threads", omp_get_max_threads());
}

int main(int argc, char** argv) { return driver_main(argc, argv, "C15", run_case); }
