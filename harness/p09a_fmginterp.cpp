// C09 (part 1): the FMG interpolation operator -- unit rows at coarse nodes, partition of unity, cubic exactness in r and
// (locally) theta at radially interior nodes, linear fallback in r on the two lines next to the boundaries.
#include "common/driver.h"
#include "common/pairs.h"

static const double EPS = 2.220446049250313e-16;

static void run_case(CaseCtx& c)
{
    Rng& rng = c.rng;
    bool large = rng.coin(0.06);
    GridOpts go;
    go.min_circ = 2;
    go.min_radial = 3;
    go.nr_min = 5;
    go.nth_min = 4;
    if (large) {
        go.nr_min = 33; go.nr_max = 49; go.nth_min = 96; go.nth_max = 160; go.nth_multiple = 4;
    }
    else if (rng.coin(0.1)) {
        go.nr_min = go.nr_max = 5; go.nth_min = go.nth_max = 4;
    }
    else {
        go.nr_max = 20; go.nth_max = 32;
    }
    go.Rmax = rng.pick({1.0, 1.3, 2.0});
    GridSpec cs = gen_grid(rng, go);
    bool midpoint = rng.coin(0.5);
    GridSpec fs = midpoint ? refine_midpoint(cs) : refine_arbitrary(rng, cs);
    // 20%: a level pair of the library's own anisotropically refined hierarchy (piecewise uniform spacings: the coarser
    // pairs contain intervals a, b, a with the middle one bisected -- patterns a random grid never has)
    const bool library_grid = !large && rng.coin(0.2);
    if (library_grid) {
        double Rmax = go.Rmax, R0 = rng.pick({1e-5, 1e-3, 0.1}) * Rmax;
        int nr_exp = rng.pick({4, 5}), aniso = rng.pick({1, 2, 3}), depth = rng.range(0, 2);
        double rr = R0 + rng.uniform(0.05, 0.95) * (Rmax - R0);
        PolarGrid g(R0, Rmax, nr_exp, -1, rr, aniso, 0);
        // a level pair needs an odd number of radii on the fine level; coarsen only while the coarser level is again a valid fine level
        for (int d = 0; d < depth && g.nr() % 2 == 1 && ((g.nr() + 1) / 2) % 2 == 1 && (g.nr() + 1) / 2 >= 9 && g.ntheta() % 8 == 0 && g.ntheta() >= 16; d++)
            g = coarseningGrid(g);
        if (g.nr() % 2 == 0 || g.ntheta() % 4 != 0)
            throw std::runtime_error("library grid is not coarsenable");
        fs = GridSpec();
        for (int i = 0; i < g.nr(); i++)
            fs.radii.push_back(g.radius(i));
        for (int j = 0; j < g.ntheta(); j++)
            fs.angles.push_back(g.theta(j));
        fs.angles.push_back(2.0 * M_PI);
        fs.radial_kind = "library-anisotropic-" + std::to_string(aniso) + "-depth" + std::to_string(depth);
        fs.angular_kind = "uniform";
        midpoint = true;
        cs = GridSpec();
        for (size_t i = 0; i < fs.radii.size(); i += 2)
            cs.radii.push_back(fs.radii[i]);
        for (size_t j = 0; j < fs.angles.size(); j += 2)
            cs.angles.push_back(fs.angles[j]);
        cs.radial_kind = fs.radial_kind;
        cs.angular_kind = fs.angular_kind;
    }
    if (rng.coin(0.5)) {
        fs.split = std::nullopt;
        fs.split_kind = "auto";
    }
    else
        set_split(fs, rng.range(2, fs.nr() - 3));
    bool coarse_auto = rng.coin(0.5);
    std::optional<double> csplit;
    if (!coarse_auto) {
        int nc = rng.range(2, cs.nr() - 3 >= 2 ? cs.nr() - 3 : 2);
        csplit = 0.5 * (cs.radii[nc - 1] + cs.radii[nc]);
    }
    int threads = large ? rng.pick({1, 2, 5, 16}) : rng.pick({1, 1, 3});
    fs.describe(c.obs.params);
    const std::string fl = midpoint ? "midpoint-nested" : "arbitrary";
    c.obs.params.str("flavour", fl).b("coarse_split_auto", coarse_auto).i("threads", threads).b("large", large);
    c.announce(fl + (large ? "/large" : "/small"));

    LevelPair lp;
    lp.build(fs, csplit, coarse_auto, threads, rng.coin());
    const PolarGrid& fg = lp.fine->grid();
    const PolarGrid& cg = lp.coarse->grid();
    const int nf = fg.numberOfNodes(), ncn = cg.numberOfNodes(), nr = fg.nr(), nt = fg.ntheta(), ntc = cg.ntheta();
    const Interpolation& I = *lp.interp;

    // constants are reproduced everywhere (also on large pairs), and a random vector gives finite output
    {
        Vector<double> one(ncn), out(nf);
        assign(one, 1.0);
        for (int k = 0; k < nf; k++)
            out[k] = -7.25;
        I.applyFMGInterpolation(*lp.coarse, *lp.fine, out, one);
        for (int i = 0; i < nr; i++)
            for (int j = 0; j < nt; j++)
                c.obs.check("constants_reproduced", std::fabs(out[fg.index(i, j)] - 1.0), (i == 0 || i == nr - 1) ? "boundary" : ((i == 1 || i == nr - 2) ? "next-to-boundary" : "interior"));
    }
    long long node_classes[3][4] = {{0}};
    if (!large) {
        // matrix by unit vectors
        std::vector<std::vector<std::pair<int, double>>> rows(nf);
        Vector<double> e(ncn), out(nf);
        assign(e, 0.0);
        for (int cidx = 0; cidx < ncn; cidx++) {
            e[cidx] = 1.0;
            I.applyFMGInterpolation(*lp.coarse, *lp.fine, out, e);
            for (int k = 0; k < nf; k++)
                if (out[k] != 0.0)
                    rows[k].emplace_back(cidx, out[k]);
            e[cidx] = 0.0;
        }
        const long double twopi = 2.0L * 3.14159265358979323846264338327950288L;
        long double rmax = fg.radius(nr - 1);
        for (int i = 0; i < nr; i++)
            for (int j = 0; j < nt; j++) {
                auto& row = rows[fg.index(i, j)];
                int zone = (i == 0 || i == nr - 1) ? 0 : ((i == 1 || i == nr - 2) ? 1 : 2);
                static const char* zn[] = {"boundary", "next-to-boundary", "interior"};
                node_classes[zone][(i % 2) * 2 + (j % 2)]++;
                std::string node = std::string(zn[zone]) + "/" + (i % 2 ? "odd" : "even") + "-r/" + (j % 2 ? "odd" : "even") + "-theta";
                if (i % 2 == 0 && j % 2 == 0) {
                    bool unit = row.size() == 1 && row[0].first == cg.index(i / 2, j / 2) && row[0].second == 1.0;
                    c.obs.require("coarse_nodes_copied", unit, zn[zone]);
                    continue;
                }
                int jc0 = j / 2; // nearest lower coarse angular index
                int ic0 = i / 2;
                // gather (w, dr, dtheta) with stencil-aware unwrapping
                struct T { long double w, dr, dt; };
                std::vector<T> t;
                bool support_ok = true;
                for (auto& p : row) {
                    int ic, jc;
                    cg.multiIndex(p.first, ic, jc);
                    int m = ((jc - jc0) % ntc + ntc) % ntc; // 0,1,2 or ntc-1 (== -1)
                    if (m == ntc - 1 && ntc > 3)
                        m = -1;
                    if (j % 2 == 0)
                        support_ok = support_ok && jc == jc0;
                    else
                        support_ok = support_ok && (m >= -1 && m <= 2);
                    int mi = ic - ic0;
                    if (i % 2 == 0)
                        support_ok = support_ok && mi == 0;
                    else
                        support_ok = support_ok && (zone == 1 ? (mi == 0 || mi == 1) : (mi >= -1 && mi <= 2));
                    int jabs = jc0 + m; // unwrapped coarse index
                    long double thc = (long double)cg.theta(((jabs % ntc) + ntc) % ntc) + twopi * (long double)(jabs < 0 ? -1 : (jabs >= ntc ? 1 : 0));
                    t.push_back({(long double)p.second, (long double)cg.radius(ic) - (long double)fg.radius(i), thc - (long double)fg.theta(j)});
                }
                c.obs.require("support_is_4x4_coarse_stencil", support_ok, node);
                // non-midpoint classification (for the linear fallback in r)
                bool nonmid_r = false;
                if (i % 2) {
                    double h1 = fg.radialSpacing(i - 1), h2 = fg.radialSpacing(i);
                    nonmid_r  = std::fabs(h1 - h2) > 1e-12 * (h1 + h2);
                }
                const long double del_r = 8.0L * EPS * rmax, del_t = 8.0L * EPS * twopi;
                int amax = zone == 1 ? 1 : 3;
                for (int a = 0; a <= amax; a++)
                    for (int b = 0; b <= 3; b++) {
                        long double m = 0, scale = 0, floor = 0;
                        for (auto& q : t) {
                            long double pr = powl(q.dr, a), pt = powl(q.dt, b);
                            m += q.w * pr * pt;
                            scale += fabsl(q.w * pr * pt);
                            if (a > 0)
                                floor += fabsl(q.w) * a * powl(fabsl(q.dr), a - 1) * del_r * fabsl(pt);
                            if (b > 0)
                                floor += fabsl(q.w) * b * powl(fabsl(q.dt), b - 1) * del_t * fabsl(pr);
                        }
                        long double target = (a == 0 && b == 0) ? 1.0L : 0.0L;
                        long double err = fabsl(m - target);
                        if (a == 0 && b == 0) {
                            c.obs.check("partition_of_unity", (double)(err / scale), node); // scale = sum |w| (Lebesgue constant)
                            continue;
                        }
                        if (scale == 0)
                            continue; // all offsets zero in that direction: trivially exact
                        double v = (double)(std::max(0.0L, err - floor) / scale);
                        if (zone == 1 && a == 1)
                            c.obs.check("fmg_linear_fallback", v, std::string(nonmid_r ? "non-midpoint" : "midpoint") + "/" + (j % 2 ? "odd-theta" : "even-theta"));
                        else
                            c.obs.check("cubic_moments", v, node + "/a" + std::to_string(a) + "b" + std::to_string(b));
                    }
            }
    }
    bool all_present = true;
    if (!large)
        for (int z = 0; z < 3; z++)
            for (int k = 0; k < 4; k++)
                all_present = all_present && node_classes[z][k] > 0;
    JObj sig;
    sig.str("flavour", fl).str("size", large ? "large" : (nf <= 200 ? "tiny" : (nf <= 1000 ? "small" : "medium"))).str("fine_split", fs.split_kind).b("coarse_auto", coarse_auto);
    sig.i("ntheta_coarse_is_4", ntc == 4).str("angular", cs.angular_kind).str("radial", cs.radial_kind).i("threads", threads);
    c.obs.top.obj("sig", sig);
    c.obs.top.b("nontrivial", !large && all_present);
    c.obs.info.i("fine_nodes", nf);
}

int main(int argc, char** argv) { return driver_main(argc, argv, "C09", run_case); }
