// C04: the coarse direct solve inverts exactly the operator the residual applies.
#include "common/driver.h"
#include <cstring>
#include "common/kit.h"
#include "common/ref_operator.h"

static const char* rhs_kind_name(int k)
{
    static const char* n[] = {"random", "wide", "unit", "consistent", "consistent-wide", "scaled-tiny-or-huge"};
    return n[k];
}

static void run_case(CaseCtx& c)
{
    Rng& rng = c.rng;
    GridOpts go;
    int sizeclass = rng.range(0, 9); // 0: minimal, 1-6 small, 7-8 medium, 9 large (rare)
    go.min_circ = 2;
    go.min_radial = 3;
    if (sizeclass == 0) {
        go.nr_min = go.nr_max = 5;
        go.nth_min = go.nth_max = 4;
    }
    else if (sizeclass <= 6) {
        go.nr_min = 5; go.nr_max = 14; go.nth_min = 4; go.nth_max = 20;
    }
    else if (sizeclass <= 8) {
        go.nr_min = 12; go.nr_max = 33; go.nth_min = 16; go.nth_max = 64;
    }
    else {
        bool big = c.thorough() ? rng.coin(0.3) : rng.coin(0.15);
        go.nr_min = big ? 49 : 25; go.nr_max = big ? 65 : 40; go.nth_min = big ? 96 : 40; go.nth_max = big ? 128 : 80;
    }
    go.Rmax = rng.pick({1.0, 1.3, 2.0});
    GridSpec gs = gen_grid(rng, go);
    ProblemSpec ps = random_problem(rng, go.Rmax, true);
    maybe_mirror(rng, ps);
    bool dirbc = rng.coin();
    int rkind = rng.range(0, 5);
    int threads = rng.pick({1, 2, 3, 5, 16});
    int cache_combo = rng.range(0, 3);
    gs.describe(c.obs.params);
    ps.describe(c.obs.params);
    c.obs.params.b("DirBC_Interior", dirbc).str("rhs_kind", rhs_kind_name(rkind)).i("threads", threads).i("give_cache_combo", cache_combo);

    ProblemObjs po(ps);
    PolarGrid grid = gs.make();
    const int n = grid.numberOfNodes();
    c.obs.params.i("circles", grid.numberSmootherCircles());
    c.announce(std::string(dirbc ? "dirbc" : "across") + "/nr" + std::to_string(grid.nr()) + "/nt" + std::to_string(grid.ntheta()));

    LevelCache lc_full(grid, *po.prof, *po.geo, true, true);
    LevelCache lc_give(grid, *po.prof, *po.geo, cache_combo & 1, (cache_combo >> 1) & 1);
    RefOp ref(grid, *po.geo, *po.prof, dirbc);

    // right-hand side
    Vector<double> b(n);
    Vector<double> xstar(n);
    bool have_xstar = false;
    if (rkind == 0)
        b = random_vector(rng, n, 0);
    else if (rkind == 1)
        for (int i = 0; i < n; i++)
            b[i] = rng.sign() * std::pow(10.0, rng.uniform(-8, 8));
    else if (rkind == 2) {
        assign(b, 0.0);
        b[rng.range(0, n - 1)] = rng.sign() * rng.loguniform(1e-3, 1e3);
    }
    else if (rkind == 5) {
        // a purely scaled right-hand side: the solve is linear, so the scale must not matter (1e-150 .. 1e+100)
        b = random_vector(rng, n, 0);
        double sc = std::pow(10.0, rng.pick({-150.0, -60.0, -25.0, -20.0, -17.0, -14.0, 30.0, 100.0}));
        for (int i = 0; i < n; i++)
            b[i] *= sc;
        c.obs.params.num("rhs_scale", sc);
    }
    else {
        xstar = rkind == 3 ? random_vector(rng, n, 0) : random_vector(rng, n, 1);
        std::vector<ld> Ax;
        ref.apply(xstar, Ax);
        for (int i = 0; i < n; i++)
            b[i] = (double)Ax[i];
        have_xstar = true;
    }
    double bnorm = 0;
    for (int i = 0; i < n; i++)
        bnorm = std::max(bnorm, std::fabs(b[i]));

    DirectSolverGiveCustomLU sg(grid, lc_give, *po.geo, *po.prof, dirbc, threads);
    DirectSolverTakeCustomLU st(grid, lc_full, *po.geo, *po.prof, dirbc, threads);
    Vector<double> xg = b, xt = b;
    sg.solveInPlace(xg);
    st.solveInPlace(xt);
    // second solve with the same object must give the same answer
    Vector<double> xg2 = b;
    sg.solveInPlace(xg2);
    bool same = true;
    for (int i = 0; i < n; i++)
        same = same && (xg2[i] == xg[i] || (std::isnan(xg2[i]) && std::isnan(xg[i])));
    c.obs.require("repeat_solve_identical", same, "give");
    // copies of the solver objects (one clone per worker is a natural use) solve like the original, bit for bit
    {
        DirectSolverGiveCustomLU sgc(sg);
        DirectSolverTakeCustomLU stc(st);
        Vector<double> yg = b, yt = b;
        sgc.solveInPlace(yg);
        stc.solveInPlace(yt);
        bool sg_same = true, st_same = true;
        for (int i = 0; i < n; i++) {
            sg_same = sg_same && std::memcmp(&yg[i], &xg[i], sizeof(double)) == 0;
            st_same = st_same && std::memcmp(&yt[i], &xt[i], sizeof(double)) == 0;
        }
        c.obs.require("copied_solver_identical", sg_same, "give");
        c.obs.require("copied_solver_identical", st_same, "take");
    }
    // the solver a Level owns (what the multigrid cycle calls): initialised for the other boundary mode first, then for
    // this one -- the second initialisation must win
    {
        const bool use_take = rng.coin(0.5);
        Hierarchy H;
        H.build(grid, po, use_take ? true : bool(cache_combo & 1), use_take ? true : bool((cache_combo >> 1) & 1), 1);
        Level& L = *H.levels[0];
        const auto method = use_take ? StencilDistributionMethod::CPU_TAKE : StencilDistributionMethod::CPU_GIVE;
        if (rng.coin(0.7))
            L.initializeDirectSolver(*po.geo, *po.prof, !dirbc, rng.pick({1, threads}), method);
        L.initializeDirectSolver(*po.geo, *po.prof, dirbc, threads, method);
        Vector<double> y = b;
        L.directSolveInPlace(y);
        const Vector<double>& direct = use_take ? xt : xg;
        double xinf = 0, d = 0;
        for (int i = 0; i < n; i++) {
            xinf = std::max(xinf, std::fabs(direct[i]));
            d = std::max(d, std::fabs(y[i] - direct[i]));
        }
        // assembly with several threads scatters in another order: compare to rounding, not bitwise
        c.obs.check("level_solver_equals_direct_solver", xinf > 0 ? d / xinf / std::max(1.0, 1e-3 * go.Rmax / gs.radii.front()) : (d > 0 ? 1.0 : 0.0), std::string(use_take ? "take/" : "give/") + (dirbc ? "dirbc" : "across"));
    }

    ResidualGive rg(grid, lc_give, *po.geo, *po.prof, dirbc, 1);
    ResidualTake rt(grid, lc_full, *po.geo, *po.prof, dirbc, 1);

    const bool wide = (rkind == 1 || rkind == 4);
    std::string cls = std::string(dirbc ? "dirbc" : "across");
    auto judge = [&](const Vector<double>& x, const std::string& who) {
        double xinf = 0;
        bool finite = true;
        for (int i = 0; i < n; i++) {
            xinf = std::max(xinf, std::fabs(x[i]));
            finite = finite && std::isfinite(x[i]);
        }
        c.obs.require("solution_finite", finite, who);
        if (!finite)
            return;
        std::vector<ld> Ax, absAx;
        ref.apply(x, Ax, &absAx);
        std::vector<std::pair<int, ld>> e;
        Vector<double> rG(n), rT(n);
        rg.computeResidual(rG, b, x);
        rt.computeResidual(rT, b, x);
        for (int i = 0; i < grid.nr(); i++)
            for (int j = 0; j < grid.ntheta(); j++) {
                int k = grid.index(i, j);
                ref.row(i, j, e, true);
                ld rowsum = 0;
                for (auto& p : e)
                    rowsum += fabsl(p.second);
                ld s_norm = rowsum * (ld)xinf + fabsl((ld)b[k]);
                ld s_comp = absAx[k] + fabsl((ld)b[k]);
                std::string rowkind = ref.is_dirichlet_row(i) ? "dirichlet" : (i == 0 ? "across-origin" : (i == 1 || i == grid.nr() - 2 ? "next-to-boundary" : "interior"));
                ld r_ref = (ld)b[k] - Ax[k];
                double en = s_norm > 0 ? (double)(fabsl(r_ref) / s_norm) : (r_ref == 0 ? 0 : 1);
                c.obs.check("residual_rownorm_reference", en, who + "/" + cls + "/" + rowkind);
                c.obs.check("residual_rownorm_give_operator", s_norm > 0 ? (double)(fabsl((ld)rG[k]) / s_norm) : (rG[k] == 0 ? 0 : 1), who + "/" + cls + "/" + rowkind);
                c.obs.check("residual_rownorm_take_operator", s_norm > 0 ? (double)(fabsl((ld)rT[k]) / s_norm) : (rT[k] == 0 ? 0 : 1), who + "/" + cls + "/" + rowkind);
                if (!wide) {
                    double ec = s_comp > 0 ? (double)(fabsl(r_ref) / s_comp) : (r_ref == 0 ? 0 : 1);
                    c.obs.check("residual_componentwise_reference", ec, who + "/" + cls + "/" + rowkind);
                }
            }
    };
    judge(xg, "give");
    judge(xt, "take");
    // give vs take solutions, well-conditioned cases only
    double xinf = 0, dmax = 0;
    for (int i = 0; i < n; i++) {
        xinf = std::max(xinf, std::fabs(xg[i]));
        dmax = std::max(dmax, std::fabs(xg[i] - xt[i]));
    }
    // forward errors are conditioning-bound: only judged where the mesh is mild (spacing ratios <= 100, R0 >= 0.05 Rmax)
    double hmin = 1e300, hmax = 0, kmin = 1e300, kmax = 0;
    for (int i = 0; i + 1 < grid.nr(); i++) {
        hmin = std::min(hmin, grid.radialSpacing(i));
        hmax = std::max(hmax, grid.radialSpacing(i));
    }
    for (int j = 0; j < grid.ntheta(); j++) {
        kmin = std::min(kmin, grid.angularSpacing(j));
        kmax = std::max(kmax, grid.angularSpacing(j));
    }
    bool wellcond = gs.radii.front() >= 0.05 * go.Rmax && hmax / hmin <= 100 && kmax / kmin <= 100;
    c.obs.info.num("h_ratio", hmax / hmin).num("k_ratio", kmax / kmin);
    if (wellcond && xinf > 0)
        c.obs.check("give_vs_take_solution", dmax / xinf, cls);
    c.obs.info.num("give_take_diff_rel", xinf > 0 ? dmax / xinf : 0.0);
    if (have_xstar && wellcond && rkind == 3) {
        double e = 0, s = 0;
        for (int i = 0; i < n; i++) {
            e = std::max(e, std::fabs(xg[i] - xstar[i]));
            s = std::max(s, std::fabs(xstar[i]));
        }
        c.obs.check("recovers_known_solution", e / s, cls);
    }
    JObj sig;
    sig.str("nr_class", grid.nr() <= 5 ? "min" : (grid.nr() <= 14 ? "small" : (grid.nr() <= 33 ? "medium" : "large")));
    sig.i("nt_mod3", grid.ntheta() % 3).i("circ_mod3", grid.numberSmootherCircles() % 3).b("dirbc", dirbc).i("threads", threads).str("rhs", rhs_kind_name(rkind));
    sig.str("geom", geom_name(ps.geom));
    c.obs.top.obj("sig", sig);
    c.obs.top.b("nontrivial", n >= 20 && bnorm > 0);
    c.obs.info.i("unknowns", n);
}

int main(int argc, char** argv) { return driver_main(argc, argv, "C04", run_case); }
