// C18: generated grids are valid, nested and coarsenable; grid files round-trip; rejected inputs raise exceptions.
//
// One case = one tuple (R0, Rmax, nr_exp, ntheta_exp, refinement radius, anisotropic_factor, divideBy2, maxLevels).
// Process structure of a case:
//   supervisor (driver process): generates the tuple, never calls the library, collects the records of the
//     measuring child; if that child dies the death is an observation of this case (no_crash, last announced phase)
//   measuring child (one per case): every call into the grid constructors is first executed in a forked probe child
//     (c18::run_in_child), which tells whether it returns, throws, or dies (assert / sanitizer / signal); only calls
//     that returned are repeated in the measuring child to MEASURE the result.  A write out of bounds that nothing
//     intercepts (-O2 build) can therefore damage at most the heap of this one case.
// Nothing is decided here: the oracle (oracles/c18.py) compares the recorded values with thresholds.
#include "common/driver.h"
#include "common/factory.h"
#include "common/c18_util.h"
#include <algorithm>
#include <cfloat>
#include <cmath>

using c18::ChildOutcome;
typedef long double ld;
static const double EPS = DBL_EPSILON;
static const double BIG = 1e300; // "not even comparable"

struct Tuple {
    double R0 = 1e-5, Rmax = 1.3, rr = 0.0;
    int nr_exp = 4, nth_exp = -1, aniso = 0, div = 0, max_levels = -1;
    std::string r0_class, rr_class;
    bool r0_valid = true;
    bool small    = false;
};

static Tuple gen_tuple(Rng& rng)
{
    Tuple t;
    t.small = rng.coin(0.3);
    t.Rmax  = rng.coin(0.7) ? rng.pick({1.0, 1.3, 2.0}) : rng.loguniform(0.05, 50.0);
    // ---- R0
    if (rng.coin(0.03)) {
        t.r0_valid = false;
        switch (rng.range(0, 4)) {
        case 0: t.R0 = t.Rmax; t.r0_class = "R0==Rmax"; break;
        case 1: t.R0 = t.Rmax * rng.uniform(1.01, 3.0); t.r0_class = "R0>Rmax"; break;
        case 2: t.R0 = 0.0; t.r0_class = "R0==0"; break;
        case 3: t.R0 = -rng.uniform(0.01, 1.0) * t.Rmax; t.r0_class = "R0<0"; break;
        default: t.R0 = t.Rmax * (1.0 - 1e-14); t.r0_class = "R0~Rmax"; break;
        }
    }
    else {
        switch (rng.range(0, 3)) {
        case 0: t.R0 = 1e-5 < 0.5 * t.Rmax ? 1e-5 : 1e-5 * t.Rmax; t.r0_class = "default"; break;
        case 1: t.R0 = rng.loguniform(1e-8, 1e-3) * t.Rmax; t.r0_class = "tiny"; break;
        case 2: t.R0 = rng.loguniform(1e-3, 0.5) * t.Rmax; t.r0_class = "small"; break;
        default: t.R0 = rng.uniform(0.5, 0.95) * t.Rmax; t.r0_class = "large"; break;
        }
        // annuli given by short decimals (what a user types): R0 and Rmax - R0 in different binades, so that
        // R0 + (Rmax - R0) need not round back to Rmax
        if (rng.coin(0.12)) {
            t.R0 = rng.range(1, 15) / 10.0;
            t.Rmax = t.R0 + rng.range(3, 50) / 10.0;
            t.Rmax = std::round(t.Rmax * 10.0) / 10.0;
            t.r0_class = "decimal-annulus";
        }
    }
    // ---- sizes
    if (t.small) {
        t.nr_exp  = rng.range(2, 5);
        t.nth_exp = rng.pick({-1, -1, 3, 4, 5, 6});
        t.div     = rng.range(0, 1);
        t.aniso   = rng.coin(0.4) ? 0 : rng.range(1, 3);
    }
    else {
        t.nr_exp  = rng.range(0, 8);
        t.nth_exp = rng.range(-1, 9);
        t.div     = rng.range(0, 3);
        double u  = rng.u01();
        t.aniso   = u < 0.25 ? 0 : (u < 0.30 ? -1 : rng.range(1, 7));
    }
    t.max_levels = rng.range(-1, 8);
    // ---- refinement radius (GMGPolar passes the density profile's alpha_jump; command-line default 0)
    double w = t.Rmax - t.R0;
    int c    = rng.range(0, 99);
    if (!t.r0_valid) {
        t.rr       = t.R0 + 0.5 * w;
        t.rr_class = "n-a";
    }
    else if (c < 8) {
        t.rr       = 0.0;
        t.rr_class = "zero(cli-default)";
    }
    else if (c < 14) {
        t.rr       = rng.coin(0.8) ? t.R0 * rng.uniform(0.0, 0.999) : -rng.uniform(0.0, 2.0) * t.Rmax;
        t.rr_class = "below-R0";
    }
    else if (c < 20) {
        t.rr       = t.R0;
        t.rr_class = "at-R0";
    }
    else if (c < 32) {
        t.rr       = t.R0 + w * rng.loguniform(1e-6, 0.05);
        t.rr_class = "near-R0";
    }
    else if (c < 72) {
        t.rr       = t.R0 + w * rng.uniform(0.05, 0.95);
        t.rr_class = "inside";
    }
    else if (c < 84) {
        t.rr       = t.Rmax - w * rng.loguniform(1e-6, 0.05);
        t.rr_class = "near-Rmax";
    }
    else if (c < 92) {
        t.rr       = t.Rmax;
        t.rr_class = "at-Rmax";
    }
    else {
        t.rr       = t.Rmax * rng.uniform(1.0001, 3.0);
        t.rr_class = "above-Rmax";
    }
    if (t.r0_valid && t.rr_class != "at-R0" && t.rr_class != "at-Rmax") {
        // rounding may move a "near" radius onto/over the end: name the class by what the number is
        if (t.rr < t.R0 && t.rr_class != "zero(cli-default)")
            t.rr_class = "below-R0";
        else if (t.rr > t.Rmax)
            t.rr_class = "above-Rmax";
        else if (t.rr == t.R0)
            t.rr_class = "at-R0";
        else if (t.rr == t.Rmax)
            t.rr_class = "at-Rmax";
    }
    return t;
}

static PolarGrid make_grid(const Tuple& t, int extra_div = 0)
{
    return PolarGrid(t.R0, t.Rmax, t.nr_exp, t.nth_exp, t.rr, t.aniso, t.div + extra_div);
}

static double ratio(ld err, ld scale)
{
    if (std::isnan((double)err))
        return NAN;
    return scale > 0 ? (double)(err / scale) : (err == 0 ? 0.0 : BIG);
}

// ---- validity of a generated grid (values are multiples of the unit round-off of the quantity's magnitude)
static void measure_generated(Obs& o, const PolarGrid& g, const Tuple& t, const std::string& cls)
{
    const std::vector<double>& r  = g.radii();
    const std::vector<double>& th = g.angles();
    int nr = (int)r.size(), nt = (int)th.size() - 1;
    o.require("sizes_consistent", g.nr() == nr && g.ntheta() == nt && nr >= 2 && nt >= 2, cls);
    bool inc = true;
    for (int i = 0; i + 1 < nr; i++)
        if (!(r[i + 1] > r[i]))
            inc = false;
    o.require("radii_strictly_increasing", inc, cls);
    o.require("radii_endpoints_exact", nr >= 1 && r.front() == t.R0 && r.back() == t.Rmax,
              cls + (nr >= 1 && r.front() != t.R0 ? "/front" : "/back"));
    if (nt < 1)
        return;
    const ld twopi = (ld)(2 * M_PI), pi = (ld)M_PI;
    for (int j = 0; j <= nt; j++)
        o.check("angles_uniform", ratio(fabsl((ld)th[j] - twopi * j / nt), EPS * twopi), cls);
    if (nt % 2 != 0)
        o.check("angles_antipodal", BIG, cls + "/odd-ntheta");
    else
        for (int j = 0; j <= nt / 2; j++)
            o.check("angles_antipodal", ratio(fabsl((ld)th[j + nt / 2] - (ld)th[j] - pi), EPS * twopi), cls);
}

// fine nodes are midpoints of the next coarser nodes, for each of the (divideBy2 + 1) midpoint refinements of the generator
static void measure_midpoints(Obs& o, const std::vector<double>& v, int levels, bool angular, const std::string& cls)
{
    int n = (int)v.size() - 1;
    const char* what = angular ? "angles" : "radii";
    for (int l = 0; l < levels; l++) {
        int s = 1 << l;
        std::string key = cls + "/" + what + (l == 0 ? "/finest" : "/deeper");
        if (n <= 0 || n % (2 * s) != 0) {
            // radii get (divideBy2 + 1) midpoint refinements, angles only divideBy2 (ntheta = 2^ntheta_exp * 2^divideBy2):
            // an angular level that does not exist (ntheta_exp = 0) is not demanded
            if (angular && l >= 1)
                break;
            o.check("fine_nodes_are_midpoints", BIG, key + "/count-not-2^k-multiple");
            continue;
        }
        for (int m = s; m < n; m += 2 * s) {
            ld mid   = ((ld)v[m - s] + (ld)v[m + s]) / 2;
            ld scale = angular ? (ld)EPS * (ld)(2 * M_PI) : (ld)EPS * fabsl((ld)v[m + s]);
            o.check("fine_nodes_are_midpoints", ratio(fabsl((ld)v[m] - mid), scale), key);
        }
    }
}

static void measure_nested(Obs& o, const PolarGrid& g, const PolarGrid& f, const std::string& cls)
{
    bool sz = f.nr() == 2 * g.nr() - 1 && f.ntheta() == 2 * g.ntheta() && (int)f.radii().size() == f.nr() &&
              (int)f.angles().size() == f.ntheta() + 1;
    o.require("nested_sizes", sz, cls);
    if (!sz)
        return;
    for (int i = 0; i < g.nr(); i++)
        o.check("nested_values", ratio(fabsl((ld)f.radii()[2 * i] - (ld)g.radii()[i]), (ld)EPS * fabsl((ld)g.radii()[i])), cls + "/radii");
    for (int j = 0; j <= g.ntheta(); j++)
        o.check("nested_values", ratio(fabsl((ld)f.angles()[2 * j] - (ld)g.angles()[j]), (ld)EPS * (ld)(2 * M_PI)), cls + "/angles");
}

// minimal sizes of a multigrid level (2 smoother circles + 3 radial nodes; 4 angles, antipodal pairs)
static bool level_size_ok(int nr, int nt) { return nr >= 5 && nt >= 4 && nt % 2 == 0; }

// coarsen (levels-1) times with the library's coarseningGrid; returns false as soon as the chain is not admissible
static bool build_chain(Obs& o, const PolarGrid& g, int levels, std::vector<PolarGrid>& chain, const std::string& cls)
{
    chain.clear();
    chain.push_back(g);
    bool ok = true;
    std::string why;
    for (int d = 0; d < levels; d++) {
        const PolarGrid& cur = chain.back();
        if (!level_size_ok(cur.nr(), cur.ntheta())) {
            ok  = false;
            why = "/level-below-minimal-size";
            break;
        }
        if (d == levels - 1)
            break;
        if (cur.nr() % 2 == 0 || cur.ntheta() % 2 != 0) {
            ok  = false;
            why = "/level-not-coarsenable";
            break;
        }
        PolarGrid c = coarseningGrid(cur);
        // the coarse grid is the every-second-node subgrid, and is a valid grid itself
        bool sub = c.nr() == (cur.nr() + 1) / 2 && c.ntheta() == cur.ntheta() / 2;
        if (sub) {
            for (int i = 0; i < c.nr(); i++)
                sub = sub && c.radii()[i] == cur.radii()[2 * i];
            for (int j = 0; j <= c.ntheta(); j++)
                sub = sub && c.angles()[j] == cur.angles()[2 * j];
        }
        o.require("coarse_level_is_subgrid", sub, cls);
        chain.push_back(c);
    }
    o.require("reported_levels_admissible", ok, cls + why);
    return ok;
}

static bool same_grid(const PolarGrid& a, const PolarGrid& b)
{
    return a.nr() == b.nr() && a.ntheta() == b.ntheta() && a.radii() == b.radii() && a.angles() == b.angles() &&
           a.numberSmootherCircles() == b.numberSmootherCircles();
}

// |loaded - written| beyond the rounding of the written precision, in units of the double round-off of the value
static void measure_roundtrip(Obs& o, const PolarGrid& a, const PolarGrid& b, int prec, bool compare_split, const std::string& key)
{
    bool shape = a.nr() == b.nr() && a.ntheta() == b.ntheta() && a.radii().size() == b.radii().size() &&
                 a.angles().size() == b.angles().size();
    if (shape && compare_split)
        shape = a.numberSmootherCircles() == b.numberSmootherCircles() && a.lengthSmootherRadial() == b.lengthSmootherRadial();
    o.require("roundtrip_same_shape", shape, key);
    if (a.radii().size() != b.radii().size() || a.angles().size() != b.angles().size())
        return;
    ld q     = powl(10.0L, -(ld)prec);
    ld bound = 0.5L * q;
    auto one = [&](double x, double y, const char* w) {
        ld d  = fabsl((ld)y - (ld)x);
        ld ex = d > bound ? d - bound : 0.0L;
        o.check("roundtrip_excess_error", ratio(ex, (ld)EPS * std::max(fabsl((ld)x), q)), key + "/" + w);
    };
    for (size_t i = 0; i < a.radii().size(); i++)
        one(a.radii()[i], b.radii()[i], "radii");
    for (size_t i = 0; i < a.angles().size(); i++)
        one(a.angles()[i], b.angles()[i], "angles");
}

// A grid accepted from a damaged file must still be a grid (tolerances far above the library's own 1e3*eps, far below
// any damage a wrong/missing/reordered value makes).
static std::string loose_invalidity(const PolarGrid& g)
{
    const std::vector<double>& r  = g.radii();
    const std::vector<double>& th = g.angles();
    const double tol = 1e-9;
    if (g.nr() != (int)r.size() || g.ntheta() != (int)th.size() - 1)
        return "size-mismatch";
    if (r.size() < 2)
        return "fewer-than-2-radii";
    if (th.size() < 3)
        return "fewer-than-2-angles";
    for (size_t i = 0; i < r.size(); i++) {
        if (!(r[i] > 0) || !std::isfinite(r[i]))
            return "radius-not-positive-finite";
        if (i && !(r[i] > r[i - 1]))
            return "radii-not-increasing";
    }
    for (size_t j = 0; j < th.size(); j++) {
        if (!std::isfinite(th[j]))
            return "angle-not-finite";
        if (j && !(th[j] > th[j - 1]))
            return "angles-not-increasing";
    }
    if (std::fabs(th.front()) > tol)
        return "first-angle-not-0";
    if (std::fabs(th.back() - 2 * M_PI) > tol)
        return "last-angle-not-2pi";
    for (size_t j = 0; j < th.size(); j++) {
        double opp = th[j] + M_PI >= 2 * M_PI ? th[j] - M_PI : th[j] + M_PI;
        auto it    = std::lower_bound(th.begin(), th.end(), opp);
        double best = 1e300;
        if (it != th.end())
            best = std::min(best, std::fabs(*it - opp));
        if (it != th.begin())
            best = std::min(best, std::fabs(*(it - 1) - opp));
        // 0 and 2*pi are the same point
        best = std::min(best, std::fabs(std::fabs(opp - th.front()) - 2 * M_PI));
        best = std::min(best, std::fabs(std::fabs(opp - th.back()) - 2 * M_PI));
        if (best > tol)
            return "angle-without-antipodal-partner";
    }
    // members the operators rely on
    if (g.numberSmootherCircles() + g.lengthSmootherRadial() != g.nr() || g.numberSmootherCircles() < 0 || g.lengthSmootherRadial() < 0)
        return "split-inconsistent";
    return "";
}

static std::unique_ptr<GMGPolar> make_solver(const Tuple& t, bool dirbc)
{
    ProblemSpec ps;
    ps.geom       = G_CIRCULAR;
    ps.prob       = P_CARTESIAN_R2;
    ps.prof       = F_POISSON;
    ps.Rmax       = t.Rmax;
    ps.alpha_jump = t.rr; // createFinestGrid() takes the refinement radius from the profile's getAlphaJump()
    auto s = std::make_unique<GMGPolar>(make_geometry(ps), make_profile(ps), make_boundary(ps), make_source(ps));
    s->verbose(0);
    s->paraview(false);
    s->R0(t.R0);
    s->Rmax(t.Rmax);
    s->nr_exp(t.nr_exp);
    s->ntheta_exp(t.nth_exp);
    s->anisotropic_factor(t.aniso);
    s->divideBy2(t.div);
    s->maxLevels(t.max_levels);
    s->DirBC_Interior(dirbc);
    return s;
}

// ---- damaged grid files
struct Fault {
    std::string kind;
    bool on_radii = true;
};
static Fault make_fault(Rng& rng, const std::string& fr, const std::string& ft, std::string& load_r, std::string& load_t)
{
    static const std::vector<std::string> kinds = {"missing",        "empty",          "whitespace-only", "non-numeric-token", "truncated-mid-number",
                                                   "truncated-short", "trailing-garbage", "line-deleted",    "lines-swapped",     "line-duplicated",
                                                   "directory",      "crlf",           "count-0",         "count-1",           "count-2",
                                                   "count-3",        "negated-first",  "zero-first",      "overflow-number"};
    Fault f;
    f.kind     = rng.pick(kinds);
    f.on_radii = rng.coin(0.55);
    const std::string& src = f.on_radii ? fr : ft;
    std::string dst        = src + ".bad";
    std::vector<std::string> L = c18::read_lines(src);
    int n   = (int)L.size();
    int idx = n > 0 ? rng.range(0, n - 1) : 0;
    (f.on_radii ? load_r : load_t) = dst;
    (f.on_radii ? load_t : load_r) = f.on_radii ? ft : fr;
    if (f.kind == "missing") {
        unlink(dst.c_str());
    }
    else if (f.kind == "empty") {
        c18::write_text(dst, "");
    }
    else if (f.kind == "whitespace-only") {
        c18::write_text(dst, "\n   \n\t\n\n");
    }
    else if (f.kind == "non-numeric-token") {
        if (n)
            L[idx] = rng.pick(std::vector<std::string>{"abc", "nan", "1.0.0", "--1", ",", "#0.5", "inf", "0,5", "1e", "+"});
        c18::write_text(dst, c18::join_lines(L));
    }
    else if (f.kind == "truncated-mid-number") {
        std::string s = c18::join_lines(L);
        size_t cut    = s.size() > 2 ? 1 + (size_t)(rng.next() % (s.size() - 2)) : 0;
        c18::write_text(dst, s.substr(0, cut));
    }
    else if (f.kind == "truncated-short") {
        int keep = std::min(n - 1 >= 0 ? n - 1 : 0, rng.range(0, 3));
        std::string s;
        for (int i = 0; i < keep; i++)
            s += L[i] + "\n";
        if (keep < n)
            s += L[keep].substr(0, 1 + rng.next() % std::max<size_t>(1, L[keep].size() - 1));
        c18::write_text(dst, s);
    }
    else if (f.kind == "trailing-garbage") {
        c18::write_text(dst, c18::join_lines(L) + rng.pick(std::vector<std::string>{"xyz\n", "# end of grid\n", std::string("\x01\x02\x00\x03", 4), "1.0junk\n", ";", "\xff\xfe"}));
    }
    else if (f.kind == "line-deleted") {
        if (n)
            L.erase(L.begin() + idx);
        c18::write_text(dst, c18::join_lines(L));
    }
    else if (f.kind == "lines-swapped") {
        if (n >= 2) {
            int i = std::min(idx, n - 2);
            std::swap(L[i], L[i + 1]);
        }
        c18::write_text(dst, c18::join_lines(L));
    }
    else if (f.kind == "line-duplicated") {
        if (n)
            L.insert(L.begin() + idx, L[idx]);
        c18::write_text(dst, c18::join_lines(L));
    }
    else if (f.kind == "directory") {
        unlink(dst.c_str());
        mkdir(dst.c_str(), 0777);
    }
    else if (f.kind == "crlf") {
        c18::write_text(dst, c18::join_lines(L, "\r\n"));
    }
    else if (f.kind.rfind("count-", 0) == 0) {
        int keep = f.kind.back() - '0';
        if ((int)L.size() > keep)
            L.resize(keep);
        c18::write_text(dst, c18::join_lines(L));
    }
    else if (f.kind == "negated-first") {
        if (n)
            L[0] = "-" + L[0];
        c18::write_text(dst, c18::join_lines(L));
    }
    else if (f.kind == "zero-first") {
        if (n)
            L[0] = "0.0";
        c18::write_text(dst, c18::join_lines(L));
    }
    else { // overflow-number
        if (n)
            L[idx] = rng.pick(std::vector<std::string>{"1e999", "-1e999", "1e-999", "123456789012345678901234567890123456789e300"});
        c18::write_text(dst, c18::join_lines(L));
    }
    return f;
}
static void remove_path(const std::string& p)
{
    if (p.empty())
        return;
    if (unlink(p.c_str()) != 0)
        rmdir(p.c_str());
}

struct CasePlan {
    Tuple t;
    bool dirbc = false, do_fault = false;
    int prec   = 18;
    long setup_limit = 0;
    std::string scratch, cls;
    JObj sig;
};

// announce to the runner (crash attribution of the whole driver) and to the supervisor (death of the measuring child)
static void announce(CaseCtx& c, const std::string& cls)
{
    c.announce(cls);
    c18::emit_record({"A", cls});
}

static void measure_case(CaseCtx& c, CasePlan& pl)
{
    Rng& rng = c.rng;
    Obs& o   = c.obs;
    const Tuple& t = pl.t;
    const bool dirbc = pl.dirbc, do_fault = pl.do_fault;
    const int prec = pl.prec;
    const long setup_limit = pl.setup_limit;
    const std::string& scratch = pl.scratch;
    const std::string& cls = pl.cls;
    JObj& sig = pl.sig;
    auto finish = [&](const std::string& outcome, bool nontrivial) {
        sig.str("outcome", outcome);
        o.top.obj("sig", sig);
        o.top.b("nontrivial", nontrivial);
        o.info.str("outcome", outcome);
    };
    announce(c, cls);

    // ---------------------------------------------------------------- 1. the constructor, observed from outside
    ChildOutcome co = c18::run_in_child([&] { PolarGrid g = make_grid(t); });
    o.info.str("ctor", co.kind_name());
    if (co.kind == ChildOutcome::CRASH) {
        o.check("no_crash", 1.0, cls + "/" + co.type);
        o.info.str("ctor_death", co.type).str("stderr_tail", co.tail.substr(co.tail.size() > 600 ? co.tail.size() - 600 : 0));
        finish("crash", false);
        return;
    }
    o.check("no_crash", 0.0, cls);
    if (co.kind != ChildOutcome::OK) {
        o.require("rejection_is_std_exception", co.kind == ChildOutcome::STD_EXCEPTION, cls);
        o.info.str("ctor_exception", co.type + ": " + co.what);
        finish("rejected", false);
        return;
    }

    // ---------------------------------------------------------------- 2. validity of the accepted grid
    PolarGrid g = make_grid(t);
    o.info.i("nr", g.nr()).i("ntheta", g.ntheta()).i("circles", g.numberSmootherCircles());
    measure_generated(o, g, t, cls);
    measure_midpoints(o, g.radii(), t.div + 1, false, cls);
    measure_midpoints(o, g.angles(), t.div + 1, true, cls);

    // ---------------------------------------------------------------- 3. contains the grid of one refinement less
    {
        // (g is the grid of one refinement less than f)
        ChildOutcome cf = c18::run_in_child([&] { PolarGrid f = make_grid(t, 1); });
        if (cf.kind == ChildOutcome::CRASH)
            o.check("no_crash", 1.0, cls + "/divideBy2+1/" + cf.type);
        else if (cf.kind != ChildOutcome::OK)
            o.require("nested_sizes", false, cls + "/finer-grid-rejected");
        else {
            PolarGrid f = make_grid(t, 1);
            measure_nested(o, g, f, cls);
        }
    }

    // ---------------------------------------------------------------- 4. admits the number of levels setup reports
    std::unique_ptr<GMGPolar> solver = make_solver(t, dirbc);
    int L = -1;
    std::string levels_exc;
    announce(c, cls + "/levels");
    try {
        L = GMGPolarVerifAccess::choose(*solver, g);
    }
    catch (const std::exception& e) {
        levels_exc = c18::demangle(typeid(e).name());
    }
    o.info.i("levels_rule", L);
    std::vector<PolarGrid> chain;
    if (L >= 0) {
        build_chain(o, g, L, chain, cls + "/rule");
        o.require("level_cap_respected", t.max_levels <= 0 || L <= t.max_levels, cls);
    }

    // ---------------------------------------------------------------- 5. the same through GMGPolar::setup() (small grids)
    std::string fr  = scratch + "/c" + std::to_string(c.index) + "_" + std::to_string((long)getpid()) + "_r.txt";
    std::string ft  = scratch + "/c" + std::to_string(c.index) + "_" + std::to_string((long)getpid()) + "_t.txt";
    c18::mkdirs(scratch);
    bool did_setup = false;
    if ((long)g.nr() * g.ntheta() <= setup_limit) {
        did_setup = true;
        announce(c, cls + "/setup");
        solver->write_grid_file(true);
        solver->file_grid_radii(fr + ".s");
        solver->file_grid_angles(ft + ".s");
        bool threw = false;
        std::string exc;
        try {
            solver->setup();
        }
        catch (const std::exception& e) {
            threw = true;
            exc   = c18::demangle(typeid(e).name()) + ": " + c18::squeeze(e.what(), 80);
        }
        o.info.str("setup", threw ? "threw " + exc : "ok");
        if (threw != (L < 0)) {
            o.require("setup_levels_consistent", false, cls + (threw ? "/setup-threw-but-level-rule-accepts" : "/setup-accepts-but-level-rule-throws"));
        }
        else if (!threw) {
            int Ls = GMGPolarVerifAccess::levels(*solver);
            bool ok = Ls == L && GMGPolarVerifAccess::stored_levels(*solver) == Ls && (int)chain.size() == Ls;
            for (int d = 0; ok && d < Ls; d++)
                ok = same_grid(GMGPolarVerifAccess::level_grid(*solver, d), chain[d]);
            o.require("setup_levels_consistent", ok, cls);
            o.require("setup_grid_matches_ctor", same_grid(solver->grid(), g), cls);
            // written by setup() with precision 18, loaded by a second setup()
            std::unique_ptr<GMGPolar> loader = make_solver(t, dirbc);
            loader->load_grid_file(true);
            loader->file_grid_radii(fr + ".s");
            loader->file_grid_angles(ft + ".s");
            // whatever the loader is told about the generator must not matter
            loader->nr_exp(3);
            loader->anisotropic_factor(0);
            announce(c, cls + "/setup-load");
            bool lthrew = false;
            try {
                loader->setup();
            }
            catch (const std::exception& e) {
                lthrew = true;
                o.info.str("setup_load_exception", c18::demangle(typeid(e).name()) + ": " + c18::squeeze(e.what(), 80));
            }
            o.require("roundtrip_loads", !lthrew, cls + "/setup/precision-18");
            if (!lthrew) {
                measure_roundtrip(o, g, loader->grid(), 18, true, "setup");
                o.require("setup_levels_consistent", GMGPolarVerifAccess::levels(*loader) == Ls, cls + "/loaded-grid-level-count");
            }
        }
        remove_path(fr + ".s");
        remove_path(ft + ".s");
    }
    o.info.b("did_setup", did_setup);
    solver.reset();

    // ---------------------------------------------------------------- 6. write / load with a chosen precision
    {
        announce(c, cls + "/roundtrip/precision-" + std::to_string(prec));
        g.writeToFile(fr, ft, prec);
        ChildOutcome cl = c18::run_in_child([&] { PolarGrid h(fr, ft); });
        // the written decimals still describe a grid (distinct, positive values) when the precision resolves it
        double q     = std::pow(10.0, -prec);
        double minsp = 1e300;
        for (int i = 0; i + 1 < g.nr(); i++)
            minsp = std::min(minsp, g.radii()[i + 1] - g.radii()[i]);
        for (int j = 0; j < g.ntheta(); j++)
            minsp = std::min(minsp, g.angles()[j + 1] - g.angles()[j]);
        bool must_load = prec >= 15 && minsp > 4 * q && g.radii().front() > 4 * q;
        std::string key = "direct/precision-" + std::string(prec >= 15 ? ">=15" : "<15");
        if (cl.kind == ChildOutcome::CRASH)
            o.check("no_crash", 1.0, "load/roundtrip/" + cl.type);
        else if (cl.kind == ChildOutcome::OK) {
            PolarGrid h(fr, ft);
            measure_roundtrip(o, g, h, prec, prec >= 15, key);
            if (must_load)
                o.require("roundtrip_loads", true, key);
        }
        else {
            o.require("rejection_is_std_exception", cl.kind == ChildOutcome::STD_EXCEPTION, "load/roundtrip");
            if (must_load)
                o.require("roundtrip_loads", false, key + "/" + cl.type);
        }
        o.info.str("roundtrip", std::string(cl.kind_name()) + (cl.kind == ChildOutcome::STD_EXCEPTION ? " " + c18::squeeze(cl.what, 60) : "")).b("roundtrip_must_load", must_load);
    }

    // ---------------------------------------------------------------- 7. damaged files
    if (do_fault) {
        if (prec != 18)
            g.writeToFile(fr, ft, 18);
        std::string lr, lt;
        Fault f          = make_fault(rng, fr, ft, lr, lt);
        // what the damaged file still holds (classification only): numbers an istream extracts before it stops
        std::string left = "unreadable";
        {
            const std::string& bad = f.on_radii ? lr : lt;
            struct stat sb;
            if (stat(bad.c_str(), &sb) == 0 && S_ISREG(sb.st_mode)) {
                std::ifstream in(bad);
                double v;
                long cnt = 0;
                while (in >> v)
                    cnt++;
                left = cnt <= 3 ? std::to_string(cnt) + "-values-left" : "4+values-left";
            }
        }
        std::string fcls = "load/" + f.kind + "/" + (f.on_radii ? "radii-file" : "angles-file") + "/" + left;
        announce(c, cls + "/" + fcls);
        ChildOutcome cl = c18::run_in_child([&] { PolarGrid h(lr, lt); });
        o.info.str("fault", f.kind + (f.on_radii ? "/radii" : "/angles")).str("fault_outcome", std::string(cl.kind_name()) + (cl.kind == ChildOutcome::STD_EXCEPTION ? " " + c18::squeeze(cl.what, 60) : ""));
        if (cl.kind == ChildOutcome::CRASH)
            o.check("no_crash", 1.0, fcls + "/" + cl.type);
        else if (cl.kind == ChildOutcome::OK) {
            o.check("no_crash", 0.0, fcls);
            PolarGrid h(lr, lt);
            std::string bad = loose_invalidity(h);
            o.require("damaged_file_grid_is_valid", bad.empty(), fcls + "/" + bad);
        }
        else {
            o.check("no_crash", 0.0, fcls);
            o.require("rejection_is_std_exception", cl.kind == ChildOutcome::STD_EXCEPTION, fcls);
        }
        remove_path(fr + ".bad");
        remove_path(ft + ".bad");
    }
    remove_path(fr);
    remove_path(ft);

    finish("accepted", true);
}

static bool known_check(const std::string& n)
{
    static const char* names[] = {"no_crash", "rejection_is_std_exception", "sizes_consistent", "radii_strictly_increasing",
                                  "radii_endpoints_exact", "angles_uniform", "angles_antipodal", "fine_nodes_are_midpoints",
                                  "nested_sizes", "nested_values", "reported_levels_admissible", "coarse_level_is_subgrid",
                                  "level_cap_respected", "setup_levels_consistent", "setup_grid_matches_ctor", "roundtrip_loads",
                                  "roundtrip_same_shape", "roundtrip_excess_error", "damaged_file_grid_is_valid"};
    for (const char* k : names)
        if (n == k)
            return true;
    return false;
}

// ---- records: measuring child -> supervisor
static void ship_observation(const Obs& o)
{
    for (auto& kv : o.top.kv)
        if (kv.first != "case")
            c18::emit_record({"T", kv.first, kv.second});
    for (auto& kv : o.info.kv)
        c18::emit_record({"I", kv.first, kv.second});
    for (auto& p : o.checks) {
        auto k = o.keys.find(p.first);
        auto n = o.counts.find(p.first);
        c18::emit_record({"C", p.first, jnum(p.second), std::to_string(n == o.counts.end() ? 1 : n->second), k == o.keys.end() ? "" : k->second});
    }
    c18::emit_record({"Z"});
}

static void run_case(CaseCtx& c)
{
    Rng& rng = c.rng;
    Obs& o   = c.obs;
    CasePlan pl;
    pl.t           = gen_tuple(rng);
    pl.dirbc       = rng.coin();
    pl.prec        = rng.coin(0.4) ? 18 : (rng.coin(0.5) ? rng.range(15, 17) : rng.range(3, 14));
    pl.do_fault    = rng.coin(0.6);
    pl.setup_limit = atol(c.arg("setup_nodes", "5000").c_str());
    pl.scratch     = c.arg("scratch", "/verif/.runs/C18/files");
    const Tuple& t = pl.t;

    o.params.num("R0", t.R0).num("Rmax", t.Rmax).i("nr_exp", t.nr_exp).i("ntheta_exp", t.nth_exp).i("anisotropic_factor", t.aniso);
    o.params.i("divideBy2", t.div).num("refinement_radius", t.rr).str("radius_class", t.rr_class).str("R0_class", t.r0_class);
    o.params.i("maxLevels", t.max_levels).b("DirBC_Interior", pl.dirbc).i("write_precision", pl.prec);

    std::string aniso_cls = t.aniso == 0 ? "uniform" : (t.aniso < 0 ? "aniso<0" : (t.aniso >= t.nr_exp ? "aniso>=nr_exp" : "aniso"));
    std::string rr_sig    = t.aniso == 0 ? "n-a" : t.rr_class;
    pl.cls                = "gen/" + aniso_cls + "/" + (t.r0_valid ? "radius-" + rr_sig : "invalid-" + t.r0_class);
    pl.sig.i("nr_exp", t.nr_exp).i("aniso", t.aniso).i("divideBy2", t.div).str("radius", t.r0_valid ? rr_sig : "invalid-" + t.r0_class);
    c.announce(pl.cls);

    // everything that touches the library happens in the measuring child
    struct timespec ts0, ts1;
    clock_gettime(CLOCK_MONOTONIC, &ts0);
    ChildOutcome mo = c18::run_in_child([&] {
        measure_case(c, pl);
        ship_observation(c.obs);
    }, 900);
    clock_gettime(CLOCK_MONOTONIC, &ts1);
    o.info.num("wall_ms", (ts1.tv_sec - ts0.tv_sec) * 1e3 + (ts1.tv_nsec - ts0.tv_nsec) * 1e-6);
    std::string last_phase = pl.cls;
    bool complete = false, garbled = false;
    for (auto& f : c18::parse_records(mo.all)) {
        if (f[0] == "A" && f.size() >= 2)
            last_phase = f[1];
        else if ((f[0] == "T" || f[0] == "I") && f.size() >= 3) {
            if (!c18::plain_key(f[1]) || !c18::json_ok(f[2])) {
                garbled = true;
                continue;
            }
            (f[0] == "T" ? o.top : o.info).raw(f[1], f[2]);
        }
        else if (f[0] == "C" && f.size() >= 5) {
            if (!known_check(f[1])) { // a measuring child with a damaged heap may report anything
                garbled = true;
                continue;
            }
            const std::string& v = f[2];
            if (!c18::json_ok(v) || f[4].size() > 400) {
                garbled = true;
                continue;
            }
            o.checks[f[1]] = v == "NaN" ? NAN : (v == "Infinity" ? INFINITY : (v == "-Infinity" ? -INFINITY : strtod(v.c_str(), nullptr)));
            o.counts[f[1]] = atoll(f[3].c_str());
            if (!f[4].empty())
                o.keys[f[1]] = f[4];
        }
        else if (f[0] == "Z")
            complete = true;
    }
    if (mo.kind == ChildOutcome::OK && complete && !garbled) {
        o.check("measurement_completed", 0.0, pl.cls);
        return;
    }
    if (mo.kind == ChildOutcome::STD_EXCEPTION || mo.kind == ChildOutcome::OTHER_EXCEPTION) {
        // a call that returned in the probe child threw when repeated (or a later library call threw): observation
        o.check("measurement_completed", 1.0, last_phase + "/threw/" + mo.type);
        o.info.str("measuring_process_exception", mo.type + ": " + mo.what).str("measuring_process_phase", last_phase);
        pl.sig.str("outcome", "exception-while-measuring");
        o.top.obj("sig", pl.sig);
        o.top.b("nontrivial", false);
        return;
    }
    // the measuring child died (or stopped reporting): an observation of this case
    std::string death = mo.kind == ChildOutcome::CRASH ? mo.type : (garbled ? "garbled-report" : "incomplete-report");
    o.checks["no_crash"] = 1.0;
    o.counts["no_crash"] += 1;
    // key: input class + kind of death; the phase it happened in is recorded in info (after a silent out-of-bounds write
    // the place where the heap damage surfaces is arbitrary)
    o.keys["no_crash"] = pl.cls + "/measuring-process/" + death;
    o.info.str("measuring_process_death", death).str("measuring_process_phase", last_phase);
    o.info.str("stderr_tail", mo.tail.substr(mo.tail.size() > 600 ? mo.tail.size() - 600 : 0));
    pl.sig.str("outcome", "crash");
    o.top.obj("sig", pl.sig);
    o.top.b("nontrivial", false);
}

int main(int argc, char** argv) { return driver_main(argc, argv, "C18", run_case); }
