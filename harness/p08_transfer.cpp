// C08: grid transfer -- restriction = prolongation^T, optimised == reference, injection o prolongation = identity,
// convex weights, linear reproduction.
#include "common/driver.h"
#include "common/pairs.h"

typedef void (Interpolation::*ApplyFn)(const Level&, const Level&, Vector<double>&, const Vector<double>&) const;

// sparse column-wise extraction: M[row] = list of (col, value), by applying the operator to unit vectors
static std::vector<std::vector<std::pair<int, double>>> extract(const Interpolation& I, ApplyFn fn, const Level& from, const Level& to, int nfrom, int nto)
{
    std::vector<std::vector<std::pair<int, double>>> rows(nto);
    Vector<double> e(nfrom), out(nto);
    assign(e, 0.0);
    for (int cidx = 0; cidx < nfrom; cidx++) {
        e[cidx] = 1.0;
        for (int k = 0; k < nto; k++)
            out[k] = -7.25; // poison: every output entry must be written
        (I.*fn)(from, to, out, e);
        for (int k = 0; k < nto; k++)
            if (out[k] != 0.0)
                rows[k].emplace_back(cidx, out[k]);
        e[cidx] = 0.0;
    }
    return rows;
}
static double entry(const std::vector<std::pair<int, double>>& row, int col)
{
    for (auto& p : row)
        if (p.first == col)
            return p.second;
    return 0.0;
}
static const double EPS = 2.220446049250313e-16;

// max relative difference (in units of eps) between matrix A and B (same shape), or A and B^T if transpose
static double mat_diff_ulps(const std::vector<std::vector<std::pair<int, double>>>& A, const std::vector<std::vector<std::pair<int, double>>>& B, bool transpose, int ncolsA)
{
    double worst = 0;
    if (!transpose) {
        for (size_t r = 0; r < A.size(); r++) {
            for (auto& p : A[r]) {
                double b = entry(B[r], p.first);
                worst = std::max(worst, std::fabs(p.second - b) / (EPS * std::max(std::fabs(p.second), std::fabs(b))));
            }
            for (auto& p : B[r]) {
                double a = entry(A[r], p.first);
                worst = std::max(worst, std::fabs(p.second - a) / (EPS * std::max(std::fabs(p.second), std::fabs(a))));
            }
        }
    }
    else {
        // A is (nA x ncolsA), B is (ncolsA x nA)
        for (size_t r = 0; r < A.size(); r++)
            for (auto& p : A[r]) {
                double b = entry(B[p.first], (int)r);
                worst = std::max(worst, std::fabs(p.second - b) / (EPS * std::max(std::fabs(p.second), std::fabs(b))));
            }
        for (size_t r = 0; r < B.size(); r++)
            for (auto& p : B[r]) {
                double a = entry(A[p.first], (int)r);
                worst = std::max(worst, std::fabs(p.second - a) / (EPS * std::max(std::fabs(p.second), std::fabs(a))));
            }
    }
    return worst;
}

static void run_case(CaseCtx& c)
{
    Rng& rng = c.rng;
    // coarse grid first, then refine (midpoint-nested or arbitrary)
    bool large = rng.coin(c.thorough() ? 0.08 : 0.1);
    GridOpts go;
    go.min_circ = 2;
    go.min_radial = 3;
    go.nr_min = 5;
    go.nth_min = 4;
    if (large) { // > 10 000 fine nodes: parallel code path, judged with random vectors
        go.nr_min = 33; go.nr_max = 65; go.nth_min = 96; go.nth_max = 256; go.nth_multiple = 4;
    }
    else if (rng.coin(0.08)) {
        go.nr_min = go.nr_max = 5; go.nth_min = go.nth_max = 4;
    }
    else {
        go.nr_max = 24; go.nth_max = 40;
    }
    go.Rmax = rng.pick({1.0, 1.3, 2.0});
    GridSpec cs = gen_grid(rng, go);
    bool midpoint = rng.coin(0.5);
    GridSpec fs = midpoint ? refine_midpoint(cs) : refine_arbitrary(rng, cs);
    // fine split: automatic or explicit anywhere (>=2 circles, >=3 radial nodes)
    if (rng.coin(0.5)) {
        fs.split = std::nullopt;
        fs.split_kind = "auto";
    }
    else
        set_split(fs, rng.range(2, fs.nr() - 3));
    bool coarse_auto = rng.coin(0.5);
    std::optional<double> csplit;
    if (!coarse_auto) {
        int nc = rng.range(2, cs.nr() - 3 >= 2 ? cs.nr() - 3 : 2);
        csplit = 0.5 * (cs.radii[nc - 1] + cs.radii[nc]);
    }
    bool dirbc = rng.coin();
    int threads = large ? rng.pick({1, 2, 3, 5, 8, 16}) : rng.pick({1, 1, 3});
    fs.describe(c.obs.params);
    c.obs.params.str("flavour", midpoint ? "midpoint-nested" : "arbitrary").b("coarse_split_auto", coarse_auto).b("DirBC_Interior", dirbc).i("threads", threads).b("large", large);
    c.announce(std::string(midpoint ? "midpoint" : "arbitrary") + (large ? "/large" : "/small"));

    // the solver gives coarser levels fewer threads (threadReductionFactor): the two levels of a pair need not agree
    const int coarse_threads = large ? rng.pick({threads, std::max(1, threads / 2), 1}) : rng.pick({threads, 1});
    c.obs.params.i("coarse_level_threads", coarse_threads);
    LevelPair lp;
    lp.build(fs, csplit, coarse_auto, threads, dirbc, coarse_threads);
    const PolarGrid& fg = lp.fine->grid();
    const PolarGrid& cg = lp.coarse->grid();
    const int nf = fg.numberOfNodes(), ncn = cg.numberOfNodes();
    const Interpolation& I = *lp.interp;
    // history: in 40% of the cases the same Interpolation object has served another level pair before (the levels are
    // arguments of every call, so the operators must not remember anything about a pair): same nodes with other
    // smoother splits (same node count, other numbering), or a different grid altogether
    int history = rng.coin(0.4) ? rng.range(1, 2) : 0;
    std::unique_ptr<LevelPair> decoy;
    if (history) {
        GridSpec ds = fs;
        std::optional<double> dsplit;
        if (history == 2) {
            GridOpts g2 = go;
            if (!large) { g2.nr_max = 12; g2.nth_max = 16; }
            GridSpec dc = gen_grid(rng, g2);
            ds = refine_midpoint(dc);
        }
        int want = rng.range(2, ds.nr() - 3);
        if (want == fg.numberSmootherCircles())
            want = want > 2 ? want - 1 : want + 1;
        set_split(ds, std::min(std::max(want, 2), ds.nr() - 3));
        int cnr = (ds.nr() + 1) / 2;
        int nc = rng.range(2, cnr - 3 >= 2 ? cnr - 3 : 2);
        dsplit = 0.5 * (ds.radii[2 * (nc - 1)] + ds.radii[2 * nc]);
        decoy = std::make_unique<LevelPair>();
        decoy->build(ds, dsplit, false, threads, dirbc, coarse_threads);
        const int dnf = decoy->fine->grid().numberOfNodes(), dnc = decoy->coarse->grid().numberOfNodes();
        Vector<double> xf = random_vector(rng, dnf, 0), xc = random_vector(rng, dnc, 0), of(dnf), oc(dnc);
        for (ApplyFn fn : {&Interpolation::applyProlongation, &Interpolation::applyProlongation0, &Interpolation::applyExtrapolatedProlongation,
                           &Interpolation::applyExtrapolatedProlongation0, &Interpolation::applyFMGInterpolation})
            (I.*fn)(*decoy->coarse, *decoy->fine, of, xc);
        for (ApplyFn fn : {&Interpolation::applyRestriction, &Interpolation::applyRestriction0, &Interpolation::applyExtrapolatedRestriction,
                           &Interpolation::applyExtrapolatedRestriction0, &Interpolation::applyInjection})
            (I.*fn)(*decoy->fine, *decoy->coarse, oc, xf);
    }
    c.obs.params.str("history", history == 0 ? "fresh-object" : (history == 1 ? "served-same-nodes-other-split" : "served-other-grid"));
    c.obs.params.i("fine_circles", fg.numberSmootherCircles()).i("coarse_circles", cg.numberSmootherCircles());
    const std::string fl = midpoint ? "midpoint-nested" : "arbitrary";

    int parity_classes_circle[4] = {0, 0, 0, 0}, parity_classes_radial[4] = {0, 0, 0, 0};
    for (int i = 0; i < fg.nr(); i++)
        for (int j = 0; j < fg.ntheta(); j++)
            (i < fg.numberSmootherCircles() ? parity_classes_circle : parity_classes_radial)[(i % 2) * 2 + (j % 2)]++;
    bool all_classes = true;
    for (int k = 0; k < 4; k++)
        all_classes = all_classes && parity_classes_circle[k] > 0 && parity_classes_radial[k] > 0;

    if (!large) {
        struct OpM { const char* name; ApplyFn fn; bool up; };
        auto P    = extract(I, &Interpolation::applyProlongation, *lp.coarse, *lp.fine, ncn, nf);
        auto P0   = extract(I, &Interpolation::applyProlongation0, *lp.coarse, *lp.fine, ncn, nf);
        auto Pex  = extract(I, &Interpolation::applyExtrapolatedProlongation, *lp.coarse, *lp.fine, ncn, nf);
        auto Pex0 = extract(I, &Interpolation::applyExtrapolatedProlongation0, *lp.coarse, *lp.fine, ncn, nf);
        auto R    = extract(I, &Interpolation::applyRestriction, *lp.fine, *lp.coarse, nf, ncn);
        auto R0   = extract(I, &Interpolation::applyRestriction0, *lp.fine, *lp.coarse, nf, ncn);
        auto Rex  = extract(I, &Interpolation::applyExtrapolatedRestriction, *lp.fine, *lp.coarse, nf, ncn);
        auto Rex0 = extract(I, &Interpolation::applyExtrapolatedRestriction0, *lp.fine, *lp.coarse, nf, ncn);
        auto Inj  = extract(I, &Interpolation::applyInjection, *lp.fine, *lp.coarse, nf, ncn);
        // no poison left anywhere: every entry written (poison value would show as -7.25 entries)
        auto poison_free = [&](const std::vector<std::vector<std::pair<int, double>>>& M) {
            for (auto& r : M)
                for (auto& p : r)
                    if (p.second == -7.25)
                        return false;
            return true;
        };
        c.obs.require("all_outputs_written", poison_free(P) && poison_free(P0) && poison_free(Pex) && poison_free(Pex0) && poison_free(R) && poison_free(R0) && poison_free(Rex) && poison_free(Rex0) && poison_free(Inj), fl);

        c.obs.check("restriction_is_transpose_ulps", mat_diff_ulps(R, P, true, nf), "standard/" + fl);
        c.obs.check("restriction_is_transpose_ulps", mat_diff_ulps(Rex, Pex, true, nf), "extrapolated/" + fl);
        c.obs.check("optimised_equals_reference_ulps", mat_diff_ulps(P, P0, false, ncn), "prolongation/" + fl);
        c.obs.check("optimised_equals_reference_ulps", mat_diff_ulps(Pex, Pex0, false, ncn), "extrapolated-prolongation/" + fl);
        c.obs.check("optimised_equals_reference_ulps", mat_diff_ulps(R, R0, false, nf), "restriction/" + fl);
        c.obs.check("optimised_equals_reference_ulps", mat_diff_ulps(Rex, Rex0, false, nf), "extrapolated-restriction/" + fl);

        // injection: exactly one unit entry per coarse node, at the coinciding fine node
        bool inj_ok = true;
        for (int ic = 0; ic < cg.nr(); ic++)
            for (int jc = 0; jc < cg.ntheta(); jc++) {
                auto& row = Inj[cg.index(ic, jc)];
                inj_ok = inj_ok && row.size() == 1 && row[0].first == fg.index(2 * ic, 2 * jc) && row[0].second == 1.0;
            }
        c.obs.require("injection_selects_coarse_nodes", inj_ok, fl);

        // rows of both prolongations
        for (int pass = 0; pass < 2; pass++) {
            auto& M = pass == 0 ? P : Pex;
            std::string op = pass == 0 ? "prolongation" : "extrapolated-prolongation";
            for (int i = 0; i < fg.nr(); i++)
                for (int j = 0; j < fg.ntheta(); j++) {
                    auto& row = M[fg.index(i, j)];
                    bool coarse_node = (i % 2 == 0 && j % 2 == 0);
                    std::string node = std::string(i % 2 ? "odd" : "even") + "-r/" + (j % 2 ? "odd" : "even") + "-theta";
                    if (coarse_node) {
                        // Inject . P = I : unit row at the coinciding coarse node
                        bool unit = row.size() == 1 && row[0].first == cg.index(i / 2, j / 2) && row[0].second == 1.0;
                        c.obs.require("injection_after_prolongation_identity", unit, op + "/" + fl);
                        continue;
                    }
                    long double sum = 0, mr = 0, mt = 0, sr = 0, st = 0;
                    bool nonneg = true;
                    for (auto& p : row) {
                        int ic, jc;
                        cg.multiIndex(p.first, ic, jc);
                        long double w = p.second;
                        nonneg = nonneg && p.second >= 0.0;
                        sum += w;
                        long double dr = (long double)cg.radius(ic) - (long double)fg.radius(i);
                        long double dt = unwrap_angle((long double)cg.theta(jc) - (long double)fg.theta(j));
                        mr += w * dr;
                        mt += w * dt;
                        sr = std::max(sr, fabsl(dr));
                        st = std::max(st, fabsl(dt));
                        // support: only the coarse neighbours of the fine node
                        bool near = std::abs(2 * ic - i) <= 1 && (std::abs(2 * jc - j) <= 1 || std::abs(2 * jc - j) >= fg.ntheta() - 1);
                        c.obs.require("support_is_neighbouring_coarse_nodes", near, op + "/" + node);
                    }
                    c.obs.require("weights_nonnegative", nonneg, op + "/" + node);
                    c.obs.check("weights_sum_to_one_ulps", (double)(fabsl(sum - 1.0L) / EPS), op + "/" + node);
                    // linear reproduction; classify the node as midpoint / non-midpoint per direction
                    bool nonmid_r = false, nonmid_t = false;
                    if (i % 2) {
                        double h1 = fg.radialSpacing(i - 1), h2 = fg.radialSpacing(i);
                        nonmid_r  = std::fabs(h1 - h2) > 1e-12 * (h1 + h2);
                    }
                    if (j % 2) {
                        double k1 = fg.angularSpacing(j - 1), k2 = fg.angularSpacing(j);
                        nonmid_t  = std::fabs(k1 - k2) > 1e-12 * (k1 + k2);
                    }
                    if (pass == 1 && (nonmid_r || nonmid_t))
                        continue; // the extrapolated pair is an index-space rule, defined for midpoint-nested grids only
                    // coordinates carry a rounding error of ~eps*|r| (a "midpoint" is the rounded mean of its neighbours), which
                    // is subtracted before scaling with the stencil width
                    const long double floor_r = 16.0L * EPS * fabsl((long double)fg.radius(i)), floor_t = 16.0L * EPS * 6.2831853L;
                    if (sr > 0)
                        c.obs.check("linear_reproduction_r", (double)(std::max(0.0L, fabsl(mr) - floor_r) / sr), std::string(nonmid_r ? "non-midpoint" : "midpoint") + "/" + op);
                    if (st > 0)
                        c.obs.check("linear_reproduction_theta", (double)(std::max(0.0L, fabsl(mt) - floor_t) / st), std::string(nonmid_t ? "non-midpoint" : "midpoint") + "/" + op);
                }
        }
    }
    // random-vector adjointness and optimised-vs-reference on the whole operators (all sizes; parallel path for large)
    {
        Vector<double> xc = random_vector(rng, ncn, 0), yf = random_vector(rng, nf, 0);
        auto dotv = [](const Vector<double>& a, const Vector<double>& b) {
            long double s = 0, sa = 0;
            for (int k = 0; k < a.size(); k++) {
                s += (long double)a[k] * b[k];
                sa += fabsl((long double)a[k] * b[k]);
            }
            return std::make_pair(s, sa);
        };
        struct Pair { ApplyFn p, r, p0, r0; const char* name; };
        Pair prs[2] = {{&Interpolation::applyProlongation, &Interpolation::applyRestriction, &Interpolation::applyProlongation0, &Interpolation::applyRestriction0, "standard"},
                       {&Interpolation::applyExtrapolatedProlongation, &Interpolation::applyExtrapolatedRestriction, &Interpolation::applyExtrapolatedProlongation0, &Interpolation::applyExtrapolatedRestriction0, "extrapolated"}};
        for (auto& pr : prs) {
            Vector<double> Px(nf), Ry(ncn), P0x(nf), R0y(ncn);
            (I.*pr.p)(*lp.coarse, *lp.fine, Px, xc);
            (I.*pr.r)(*lp.fine, *lp.coarse, Ry, yf);
            (I.*pr.p0)(*lp.coarse, *lp.fine, P0x, xc);
            (I.*pr.r0)(*lp.fine, *lp.coarse, R0y, yf);
            auto a = dotv(Px, yf), b = dotv(xc, Ry);
            c.obs.check("adjoint_inner_product", (double)(fabsl(a.first - b.first) / (a.second + b.second)), std::string(pr.name) + (large ? "/large" : "/small"));
            double d = 0;
            for (int k = 0; k < nf; k++)
                d = std::max(d, std::fabs(Px[k] - P0x[k]));
            for (int k = 0; k < ncn; k++)
                d = std::max(d, std::fabs(Ry[k] - R0y[k]) / 4.0); // restriction sums up to 9 terms of size <= 1
            c.obs.check("optimised_equals_reference_random", d, std::string(pr.name) + (large ? "/large" : "/small"));
            // no new extrema: values of P x lie within [min x, max x] (convexity), up to rounding
            double lo = 1e300, hi = -1e300;
            for (int k = 0; k < ncn; k++) {
                lo = std::min(lo, xc[k]);
                hi = std::max(hi, xc[k]);
            }
            double out_of_range = 0;
            for (int k = 0; k < nf; k++)
                out_of_range = std::max({out_of_range, lo - Px[k], Px[k] - hi});
            c.obs.check("no_new_extrema", out_of_range, std::string(pr.name) + (large ? "/large" : "/small"));
        }
        Vector<double> inj(ncn), Pxc(nf);
        (I.*(&Interpolation::applyProlongation))(*lp.coarse, *lp.fine, Pxc, xc);
        I.applyInjection(*lp.fine, *lp.coarse, inj, Pxc);
        bool same = true;
        for (int k = 0; k < ncn; k++)
            same = same && inj[k] == xc[k];
        c.obs.require("injection_after_prolongation_identity", same, std::string("random-vector/") + fl);
    }
    JObj sig;
    sig.str("flavour", fl).str("size", large ? "large" : (nf <= 200 ? "tiny" : (nf <= 1200 ? "small" : "medium")));
    sig.str("fine_split", fs.split_kind).b("coarse_auto", coarse_auto).i("fine_circ_mod2", fg.numberSmootherCircles() % 2).i("threads", threads).str("angular", cs.angular_kind).str("radial", cs.radial_kind);
    sig.i("object_history", history);
    c.obs.top.obj("sig", sig);
    c.obs.top.b("nontrivial", all_classes);
    c.obs.info.i("fine_nodes", nf).i("coarse_nodes", ncn);
}

int main(int argc, char** argv) { return driver_main(argc, argv, "C08", run_case); }
