// C06: one smoothing sweep is an exact zebra line relaxation of the same operator.
#include "common/driver.h"
#include "common/smooth_common.h"

static void run_case(CaseCtx& c)
{
    Rng& rng = c.rng;
    GridOpts go;
    go.nth_multiple = 4;
    go.nth_min = 4;
    go.nth_max = c.thorough() ? 96 : 48;
    go.nr_min = 5;
    go.nr_max = c.thorough() ? 40 : 24;
    go.min_circ = 2;
    go.min_radial = 3;
    go.p_auto_split = 0.3;
    if (rng.coin(0.06)) { // smallest smoothing-level grid
        go.nr_min = go.nr_max = 5;
        go.nth_min = go.nth_max = 4;
    }
    // a few levels above 10 000 nodes (thresholds of `omp parallel if` clauses and of the parallel vector kernels), many threads
    const bool large = rng.coin(c.thorough() ? 0.012 : 0.04);
    if (large) {
        go.nr_min = 81; go.nr_max = 97; go.nth_min = 128; go.nth_max = 160;
    }
    go.Rmax = rng.pick({1.0, 1.3, 2.0});
    GridSpec gs = gen_grid(rng, go);
    ProblemSpec ps = random_problem(rng, go.Rmax, true);
    maybe_mirror(rng, ps);
    bool dirbc = rng.coin();
    int threads = rng.pick({1, 2, 4, 7});
    if (large)
        threads = rng.pick({2, 4, 16, 32});
    int cache_combo = rng.range(0, 3);
    int start_kind = rng.range(0, 3); // 0 random, 1 x*+noise, 2 x*, 3 zeros
    static const char* sk[] = {"random", "exact+noise", "exact", "zeros"};
    gs.describe(c.obs.params);
    ps.describe(c.obs.params);
    c.obs.params.b("DirBC_Interior", dirbc).i("threads", threads).i("give_cache_combo", cache_combo).str("start", sk[start_kind]).b("large", large);

    ProblemObjs po(ps);
    PolarGrid grid = gs.make();
    const int n = grid.numberOfNodes(), nr = grid.nr(), nt = grid.ntheta(), ncirc = grid.numberSmootherCircles();
    c.obs.params.i("circles", ncirc);
    c.announce(std::string(dirbc ? "dirbc" : "across") + "/circ" + std::to_string(ncirc % 2) + "/nt" + std::to_string(nt));
    LevelCache lc(grid, *po.prof, *po.geo, true, true);
    LevelCache lcg(grid, *po.prof, *po.geo, cache_combo & 1, (cache_combo >> 1) & 1);
    RefOp ref(grid, *po.geo, *po.prof, dirbc);
    MeshStats ms = mesh_stats(grid, go.Rmax);

    Vector<double> f = random_vector(rng, n, 0);
    // exact discrete solution from the library's direct solver (validated by C04) -- refined once with the reference residual
    Vector<double> xstar = f;
    {
        DirectSolverGiveCustomLU ds(grid, lc, *po.geo, *po.prof, dirbc, 1);
        ds.solveInPlace(xstar);
        std::vector<ld> Ax;
        ref.apply(xstar, Ax);
        Vector<double> r(n);
        for (int k = 0; k < n; k++)
            r[k] = (double)((ld)f[k] - Ax[k]);
        ds.solveInPlace(r);
        for (int k = 0; k < n; k++)
            xstar[k] += r[k];
    }
    double xsinf = 0;
    for (int k = 0; k < n; k++)
        xsinf = std::max(xsinf, std::fabs(xstar[k]));

    Vector<double> x0(n);
    if (start_kind == 0)
        x0 = random_vector(rng, n, 0);
    else if (start_kind == 1) {
        double amp = rng.loguniform(1e-6, 1e-1) * xsinf;
        for (int k = 0; k < n; k++)
            x0[k] = xstar[k] + amp * rng.uniform(-1, 1);
    }
    else if (start_kind == 2)
        x0 = xstar;
    else
        assign(x0, 0.0);
    bool boundary_carries_data = rng.coin(0.6) || start_kind == 2;
    if (boundary_carries_data)
        for (int i = 0; i < nr; i++)
            if (ref.is_dirichlet_row(i))
                for (int j = 0; j < nt; j++)
                    x0[grid.index(i, j)] = f[grid.index(i, j)];
    c.obs.params.b("boundary_carries_data", boundary_carries_data);

    SmootherGive sg(grid, lcg, *po.geo, *po.prof, dirbc, threads);
    SmootherTake st(grid, lc, *po.geo, *po.prof, dirbc, threads);
    std::string cls = std::string(dirbc ? "dirbc" : "across") + "/circles-" + (ncirc % 2 ? "odd" : "even");

    auto sweep = [&](int which, const Vector<double>& xin) {
        Vector<double> x = xin;
        Vector<double> temp = random_vector(rng, n, 3); // scratch content must not matter
        if (which == 0)
            sg.smoothing(x, f, temp);
        else
            st.smoothing(x, f, temp);
        return x;
    };
    const char* who[2] = {"give", "take"};
    Vector<double> out[2];
    for (int w = 0; w < 2; w++) {
        // (1) exact discrete solution is a fixed point: backward (residual stays rounding-small) and, on mild meshes, forward
        Vector<double> sx = sweep(w, xstar);
        ScaledResidual sr;
        sr.compute(ref, sx);
        double d = 0;
        // The rows next to the innermost circle see the rounding error of that circle's line solve, whose condition grows
        // like Rmax/R0 (measured on the unchanged tree: 1e-15 for R0 >= 1e-3 Rmax, x10 per decade below). The residual is
        // therefore normalised by max(1, 1e-3 Rmax / R0) before it is judged.
        const double amp = std::max(1.0, 1e-3 * go.Rmax / grid.radius(0));
        for (int k = 0; k < n; k++) {
            c.obs.check("fixed_point_residual", sr.at(k, f) / amp, std::string(who[w]) + "/" + cls);
            d = std::max(d, std::fabs(sx[k] - xstar[k]));
        }
        if (ms.mild && xsinf > 0)
            c.obs.check("fixed_point_forward", d / xsinf, std::string(who[w]) + "/" + cls);
        c.obs.info.num(std::string("fixed_point_forward_") + who[w], xsinf > 0 ? d / xsinf : 0);

        // (2) one sweep from the start vector
        Vector<double> x = sweep(w, x0);
        out[w] = x;
        sr.compute(ref, x);
        bool finite = true;
        for (int k = 0; k < n; k++)
            finite = finite && std::isfinite(x[k]);
        c.obs.require("result_finite", finite, std::string(who[w]) + "/" + cls);
        for (int i = 0; i < nr; i++)
            for (int j = 0; j < nt; j++) {
                int k = grid.index(i, j);
                if (ref.is_dirichlet_row(i)) {
                    c.obs.require("dirichlet_nodes_equal_data", x[k] == f[k], std::string(who[w]) + (i == 0 ? "/inner" : "/outer"));
                    continue;
                }
                bool in_circle = i < ncirc;
                bool white     = in_circle ? ((ncirc - 1 - i) % 2 == 1) : (j % 2 == 1);
                if (white)
                    c.obs.check("white_line_residual", sr.at(k, f), std::string(who[w]) + "/" + cls + (in_circle ? (i == 0 ? "/inner-circle" : "/circle") : (i == ncirc ? "/radial-first" : (i == nr - 2 ? "/radial-last" : "/radial"))));
            }
        // (4) energy norm of the error does not increase once the boundary carries the data
        if (boundary_carries_data) {
            Vector<double> e0(n), e1(n);
            for (int k = 0; k < n; k++) {
                e0[k] = x0[k] - xstar[k];
                e1[k] = x[k] - xstar[k];
            }
            for (int i = 0; i < nr; i++)
                if (ref.is_dirichlet_row(i))
                    for (int j = 0; j < nt; j++) {
                        e0[grid.index(i, j)] = 0;
                        e1[grid.index(i, j)] = 0;
                    }
            ld E0 = energy(ref, e0), E1 = energy(ref, e1);
            // rounding floor: energies below eps-level of the solution's own energy scale are not comparable
            ld Es = energy(ref, [&] { Vector<double> t = xstar; for (int i = 0; i < nr; i++) if (ref.is_dirichlet_row(i)) for (int j = 0; j < nt; j++) t[grid.index(i, j)] = 0; return t; }());
            if (E0 > 1e-20L * fabsl(Es) && E0 > 0)
                c.obs.check("energy_increase", (double)(E1 / E0 - 1.0L), std::string(who[w]) + "/" + cls);
            c.obs.info.num(std::string("energy_ratio_") + who[w], E0 > 0 ? (double)(E1 / E0) : 0.0);
        }
    }
    // (3) give == take
    {
        double d = 0, s = std::max(xsinf, 1e-300);
        for (int k = 0; k < n; k++) {
            d = std::max(d, std::fabs(out[0][k] - out[1][k]));
            s = std::max(s, std::fabs(x0[k]));
        }
        if (ms.mild)
            c.obs.check("give_vs_take", d / s, cls);
        c.obs.info.num("give_vs_take_rel", d / s);
        // backward form valid on every mesh: both outputs have the same (zero) white-line residual -- covered by (2)
    }
    // a second problem on the same smoother objects: new data written into the SAME right-hand-side buffer (the objects have
    // swept with the old contents before); the result must equal that of freshly built objects, bit for bit at one thread
    // and to rounding otherwise -- a sweep is a function of (x, rhs contents), not of the object's past
    {
        Vector<double> f2 = random_vector(rng, n, 0);
        for (int k = 0; k < n; k++)
            f[k] = f2[k];
        Vector<double> xin = random_vector(rng, n, 0);
        SmootherGive fg(grid, lcg, *po.geo, *po.prof, dirbc, threads);
        SmootherTake ft(grid, lc, *po.geo, *po.prof, dirbc, threads);
        for (int w = 0; w < 2; w++) {
            Vector<double> xr = xin, xf = xin, t1 = random_vector(rng, n, 3), t2 = t1;
            if (w == 0) {
                sg.smoothing(xr, f, t1);
                fg.smoothing(xf, f, t2);
            }
            else {
                st.smoothing(xr, f, t1);
                ft.smoothing(xf, f, t2);
            }
            double d = 0, sc = 0;
            for (int k = 0; k < n; k++) {
                d  = std::max(d, std::fabs(xr[k] - xf[k]));
                sc = std::max(sc, std::fabs(xf[k]));
            }
            if (ms.mild || threads == 1)
                c.obs.check("reused_object_equals_fresh_object", sc > 0 ? d / sc : (d > 0 ? 1.0 : 0.0), std::string(w == 0 ? "give" : "take") + (threads == 1 ? "/one-thread" : "/threads"));
        }
    }
    JObj sig;
    sig.i("circ_parity", ncirc % 2).i("nt_mod8", nt % 8).b("dirbc", dirbc).i("cache", cache_combo).str("geom", geom_name(ps.geom)).i("threads", threads).str("start", sk[start_kind]);
    c.obs.top.obj("sig", sig);
    c.obs.top.b("nontrivial", ncirc >= 4 && nt >= 8);
    c.obs.info.b("mild_mesh", ms.mild).num("h_ratio", ms.h_ratio).num("k_ratio", ms.k_ratio);
}

int main(int argc, char** argv) { return driver_main(argc, argv, "C06", run_case); }
