// C15: copies and moves of linear-algebra objects behave like the original.
// Value-semantics model monitor: a random history of {construct, default-construct, set entries, solve, copy-construct,
// copy-assign, move-construct, move-assign, destroy} is executed on up to four objects of one class; a plain model
// (dense copies) follows every object.  The driver only measures; oracles/c15.py judges.
#include "common/driver.h"
#include "common/c15_adapters.h"
#include <cerrno>
#include <map>
#include <memory>
#include <omp.h>
#include <set>
#include <sys/wait.h>
#include <type_traits>
#include <limits>

using namespace c15;

// ---------------------------------------------------------------------------------------------------------------
// Run fn in a forked child and report how the child ended.  Used for operations whose source object is empty
// (default-constructed / moved-from): the property allows them, and if the real code dies there the history can go on.
struct ProbeResult {
    bool ok;
    std::string kind;
};
static std::string sanitize(const std::string& s, size_t maxlen = 60)
{
    std::string o;
    for (char ch : s) {
        if (o.size() >= maxlen)
            break;
        if (isalnum((unsigned char)ch) || ch == '_' || ch == '.' || ch == ':' || ch == '-')
            o += ch;
        else if (!o.empty() && o.back() != '-')
            o += '-';
    }
    while (!o.empty() && o.back() == '-')
        o.pop_back();
    return o;
}
static std::string token_after(const std::string& text, const std::string& marker, const char* stops)
{
    auto p = text.find(marker);
    if (p == std::string::npos)
        return "";
    p += marker.size();
    auto e = text.find_first_of(stops, p);
    return text.substr(p, e == std::string::npos ? std::string::npos : e - p);
}
template <class F>
static ProbeResult probe_in_child(F&& fn)
{
    int pfd[2];
    if (pipe(pfd) != 0)
        throw std::runtime_error("pipe() failed");
    fflush(nullptr);
    pid_t pid = fork();
    if (pid < 0)
        throw std::runtime_error("fork() failed");
    if (pid == 0) {
        close(pfd[0]);
        dup2(pfd[1], 2);
        close(pfd[1]);
        int code = 0;
        try {
            fn();
        }
        catch (const std::exception& e) {
            code          = 77;
            std::string m = std::string("EXC:") + e.what() + "\n";
            if (write(2, m.c_str(), m.size()) < 0)
                code = 78;
        }
        catch (...) {
            code = 78;
        }
        _exit(code);
    }
    close(pfd[1]);
    std::string err;
    char buf[4096];
    ssize_t k;
    while ((k = read(pfd[0], buf, sizeof buf)) > 0 || (k < 0 && errno == EINTR))
        if (k > 0 && err.size() < 32768)
            err.append(buf, (size_t)k);
    close(pfd[0]);
    int status = 0;
    while (waitpid(pid, &status, 0) < 0 && errno == EINTR) {
    }
    if (WIFEXITED(status) && WEXITSTATUS(status) == 0)
        return {true, ""};
    std::string kind, t;
    if (!(t = token_after(err, "EXC:", "\n")).empty())
        kind = "exception:" + sanitize(t);
    else if (!(t = token_after(err, "AddressSanitizer: ", " \n")).empty())
        kind = "asan:" + sanitize(t);
    else if (!(t = token_after(err, "runtime error: ", "\n")).empty())
        kind = "ubsan:" + sanitize(t, 48);
    else if (!(t = token_after(err, "Assertion `", "'")).empty())
        kind = "assert:" + sanitize(t, 48);
    else if (WIFSIGNALED(status)) {
        int sg = WTERMSIG(status);
        kind   = sg == SIGSEGV ? "SIGSEGV" : sg == SIGABRT ? "SIGABRT" : sg == SIGBUS ? "SIGBUS" : sg == SIGFPE ? "SIGFPE" : "SIG" + std::to_string(sg);
    }
    else
        kind = "exit" + std::to_string(WEXITSTATUS(status));
    return {false, kind};
}

// ---------------------------------------------------------------------------------------------------------------
enum OpKind
{
    OP_CONSTRUCT,
    OP_DEFAULT,
    OP_SET,
    OP_SOLVE,
    OP_COPY_CONSTRUCT,
    OP_MOVE_CONSTRUCT,
    OP_COPY_ASSIGN,
    OP_MOVE_ASSIGN,
    OP_SELF_ASSIGN,
    OP_DESTROY,
    OP_COUNT
};
static const char* op_name[OP_COUNT] = {"construct", "default-construct", "set", "solve", "copy-construct", "move-construct",
                                        "copy-assign", "move-assign", "self-copy-assign", "destroy"};
static const char* op_code[OP_COUNT] = {"N", "D", "S", "X", "cc", "mc", "ca", "ma", "sa", "~"};

template <class AD>
struct Hist {
    typedef typename AD::Obj Obj;
    static const int NS = 4;
    CaseCtx& c;
    Rng& rng;
    bool want_cyclic;
    std::unique_ptr<Obj> obj[NS];
    Model mod[NS];
    int next_mid = 0;
    struct SolveRec {
        std::vector<double> rhs, x;
        std::vector<ld> xref;
        std::string prov; // who solved first
    };
    struct FactRec {
        Snap snap;
        std::string prov; // who factorised first
    };
    std::map<int, SolveRec> solved;   // matrix id -> first solve (rhs, result): later solves of the same system must agree bitwise
    std::map<int, FactRec> factored;  // matrix id -> readable elements after the first factorisation (tridiagonal)
    struct Event {
        int src, dst, step;
        bool src_open, dst_open, src_obs, dst_obs, nonempty;
    };
    std::vector<Event> events;
    std::string hist;
    int opcount[OP_COUNT] = {0};
    std::set<std::string> xfer;
    int step = 0, nprobe = 0, nprobe_fail = 0, nsolve = 0, ncompare = 0;

    Hist(CaseCtx& ctx, bool cyc) : c(ctx), rng(ctx.rng), want_cyclic(cyc) {}

    bool live(int i) const { return (bool)obj[i]; }
    void note(OpKind k, const std::string& extra)
    {
        opcount[k]++;
        hist += (hist.empty() ? "" : " ") + std::string(op_code[k]) + extra;
        c.obs.params.str("hist", hist);
    }
    void close_slot(int i)
    {
        for (auto& e : events) {
            if (e.src == i)
                e.src_open = false;
            if (e.dst == i)
                e.dst_open = false;
        }
    }
    void observed(int i)
    {
        for (auto& e : events) {
            if (e.step >= step)
                continue;
            if (e.src == i && e.src_open)
                e.src_obs = true;
            if (e.dst == i && e.dst_open)
                e.dst_obs = true;
        }
    }
    // every live object with a specified value must read exactly like its model
    void check_all(const std::string& ctx, int tgt, int src)
    {
        for (int i = 0; i < NS; i++) {
            if (!live(i) || !readable(mod[i].st))
                continue;
            bool ok = AD::snap(*obj[i]).same(mod[i].exp);
            ncompare++;
            std::string role = i == tgt ? "target" : (i == src ? "source" : "bystander");
            if (src < 0) // not a copy/move step: say which operation gave this object its value
                role += "/value-from:" + mod[i].prov;
            c.obs.require("elements_match_model", ok, ctx + "/" + role);
            if (!AD::is_solver)
                observed(i); // data classes: a full read at a later step is the observation
        }
    }
    void new_matrix(Model& m)
    {
        if (!AD::is_solver)
            return;
        m.mid = next_mid++;
        if (m.st == ST_FILLED)
            AD::rebuild_dense(m);
    }

    void do_construct(int t)
    {
        Model m;
        bool fill = rng.coin(0.8);
        bool cyc  = rng.coin(0.85) ? want_cyclic : !want_cyclic;
        obj[t].reset(AD::make_sized(rng, m, fill, cyc));
        new_matrix(m);
        mod[t] = m;
        note(OP_CONSTRUCT, std::to_string(t) + "(" + std::to_string(m.n) + ")");
        check_all(AD::cls(m) + "/construct", t, -1);
    }
    void do_default(int t)
    {
        Model m;
        obj[t].reset(AD::make_default());
        m.st   = ST_DEFAULT;
        m.exp  = AD::snap(*obj[t]); // baseline of a default-constructed object is taken as is
        mod[t] = m;
        note(OP_DEFAULT, std::to_string(t));
        check_all(AD::cls(m) + "/default-construct", t, -1);
    }
    void do_set(int t)
    {
        Model& m = mod[t];
        AD::set(rng, *obj[t], m);
        new_matrix(m);
        note(OP_SET, std::to_string(t));
        check_all(AD::cls(m) + "/set", t, -1);
    }
    void do_solve(int t)
    {
        Model& m = mod[t];
        int n    = m.n;
        std::string key = AD::cls(m) + "/solve/value-from:" + m.prov;
        auto it  = solved.find(m.mid);
        bool again = it != solved.end() && rng.coin(0.6);
        std::vector<double> rhs(n);
        std::vector<ld> xref;
        if (again) {
            rhs  = it->second.rhs;
            xref = it->second.xref;
        }
        else {
            for (auto& v : rhs)
                v = rng.uniform(-1.0, 1.0);
            rhs[rng.range(0, n - 1)] = rng.sign() * rng.uniform(0.5, 1.0);
            std::vector<ld> b(rhs.begin(), rhs.end());
            if (!dense_solve(m.A, b, n, xref))
                throw std::runtime_error("harness generated a singular matrix");
        }
        std::vector<double> x = rhs;
        c.announce(key);
        AD::solve(rng, *obj[t], x);
        nsolve++;
        ld xmax = 0, emax = 0;
        bool finite = true;
        for (int i = 0; i < n; i++) {
            xmax = std::max(xmax, fabsl(xref[i]));
            emax = std::max(emax, fabsl((ld)x[i] - xref[i]));
            finite = finite && std::isfinite(x[i]);
        }
        c.obs.check("solve_vs_dense", finite ? (double)(emax / xmax) : std::numeric_limits<double>::quiet_NaN(), key);
        if (again) // two parties; the key names the one whose value came from a copy/move (this object if both did)
            c.obs.require("solve_bit_identical", std::memcmp(x.data(), it->second.x.data(), n * sizeof(double)) == 0,
                          AD::cls(m) + "/solve/value-from:" + (m.prov == "constructed" ? it->second.prov : m.prov));
        else if (it == solved.end())
            solved[m.mid] = SolveRec{rhs, x, xref, m.prov};
        // a first solve factorises in place (tridiagonal): the readable elements change once, and identically for every
        // object that holds the same system
        if (m.st == ST_FILLED && std::is_same<AD, TriAD>::value) {
            Snap s  = AD::snap(*obj[t]);
            auto f  = factored.find(m.mid);
            if (f == factored.end())
                factored.emplace(m.mid, FactRec{s, m.prov});
            else
                c.obs.require("elements_match_model", s.same(f->second.snap),
                              AD::cls(m) + "/first-solve-factorises/value-from:" + (m.prov == "constructed" ? f->second.prov : m.prov));
            m.exp = s; // from here on the stored factor must stay as it is
            m.st  = ST_FACTORISED;
        }
        note(OP_SOLVE, std::to_string(t) + (again ? "r" : ""));
        observed(t);
        check_all(AD::cls(m) + "/solve", t, -1);
    }
    void do_destroy(int t)
    {
        std::string cl = AD::cls(mod[t]);
        note(OP_DESTROY, std::to_string(t));
        obj[t].reset();
        close_slot(t);
        mod[t] = Model();
        check_all(cl + "/destroy", -1, -1);
    }
    void do_self_assign(int t)
    {
        Model& m = mod[t];
        std::string ctx = AD::cls(m) + "/self-copy-assign/src-" + st_name(m);
        note(OP_SELF_ASSIGN, std::to_string(t));
        c.announce(ctx);
        Obj& alias = *obj[t];
        *obj[t]    = alias;
        check_all(ctx, t, -1);
    }

    // kind: OP_COPY_CONSTRUCT / OP_MOVE_CONSTRUCT (t empty) or OP_COPY_ASSIGN / OP_MOVE_ASSIGN (t live)
    void do_transfer(OpKind kind, int s, int t)
    {
        const bool is_assign = kind == OP_COPY_ASSIGN || kind == OP_MOVE_ASSIGN;
        const bool is_move   = kind == OP_MOVE_CONSTRUCT || kind == OP_MOVE_ASSIGN;
        const Model ms       = mod[s];
        const bool src_empty = empty_state(ms.st);
        std::string tail     = std::string(op_name[kind]) + "/src-" + st_name(ms);
        std::string prov     = tail;
        if (is_assign) {
            const Model& md = mod[t];
            tail += "/dst-" + st_name(md);
            prov = tail;
            if (!src_empty && !empty_state(md.st))
                tail += (ms.n == md.n && ms.exp.ints.size() == md.exp.ints.size() && ms.exp.vals.size() == md.exp.vals.size()) ? "/eqsize" : "/diffsize";
        }
        std::string cl  = AD::cls(ms);
        if (src_empty && is_assign && !empty_state(mod[t].st))
            cl = AD::cls(mod[t]);
        std::string ctx = cl + "/" + tail;
        note(kind, std::to_string(s) + ">" + std::to_string(t));
        xfer.insert(std::string(op_code[kind]) + ":" + st_name(ms) + (is_assign ? ">" + st_name(mod[t]) : ""));
        c.announce(ctx);
        auto doit = [&]() {
            switch (kind) {
            case OP_COPY_CONSTRUCT: obj[t].reset(new Obj(*obj[s])); break;
            case OP_MOVE_CONSTRUCT: obj[t].reset(new Obj(std::move(*obj[s]))); break;
            case OP_COPY_ASSIGN: *obj[t] = *obj[s]; break;
            default: *obj[t] = std::move(*obj[s]); break;
            }
        };
        std::string fail;
        bool done = false, threw_here = false;
        if (src_empty || (is_assign && empty_state(mod[t].st))) { // an empty object takes part: try it in a child first
            nprobe++;
            ProbeResult pr = probe_in_child([&]() {
                Snap b = AD::snap(*obj[s]); // reading an empty object: sizes first, then as many elements as it claims
                doit();
                Snap x = AD::snap(*obj[t]);
                (void)b;
                (void)x;
            });
            if (!pr.ok) {
                fail = pr.kind;
                nprobe_fail++;
            }
        }
        Snap before;
        if (fail.empty()) {
            try {
                before = AD::snap(*obj[s]);
                doit();
                done = true;
            }
            catch (const std::exception& e) {
                fail       = "exception:" + sanitize(e.what());
                threw_here = true;
            }
        }
        c.obs.require("op_completes", fail.empty(), ctx + (fail.empty() ? "" : "/" + fail));
        if (!done) {
            hist += "!";
            c.obs.params.str("hist", hist);
            if (threw_here && is_assign) { // the target of a throwing assignment has no specified value any more
                mod[t].st = ST_BROKEN;
                close_slot(t);
            }
            return;
        }
        // ---- model
        close_slot(t);
        Model mt = ms;
        mt.prov  = prov;
        if (src_empty)
            mt.st = ms.st == ST_DEFAULT ? ST_DEFAULT : ST_COPY_OF_MOVED;
        mod[t] = mt;
        if (is_move) {
            mod[s].st       = ST_MOVED;
            mod[s].was_fact = ms.st == ST_FACTORISED;
            close_slot(s);
        }
        // ---- differential observations: target reads like the source did at the moment of the operation
        Snap after_t = AD::snap(*obj[t]);
        c.obs.require("target_equals_source", after_t.same(before), ctx);
        if (!is_move)
            c.obs.require("source_unchanged_by_copy", AD::snap(*obj[s]).same(before), ctx);
        events.push_back(Event{s, t, step, !is_move, true, is_move, false, !src_empty});
        // ---- independence: writing one element of one object changes nothing that can be read from any other
        for (int side = 0; side < (is_move ? 1 : 2); side++) {
            int w = side == 0 ? t : s;
            if (!readable(mod[w].st))
                continue;
            int np = AD::npoke(*obj[w]);
            if (np <= 0)
                continue;
            std::vector<Snap> pre(NS);
            for (int i = 0; i < NS; i++)
                if (i != w && live(i) && readable(mod[i].st))
                    pre[i] = AD::snap(*obj[i]);
            double& ref = AD::pref(*obj[w], rng.range(0, np - 1));
            double saved;
            std::memcpy(&saved, &ref, sizeof(double));
            double poke = 1.25;
            if (std::memcmp(&saved, &poke, sizeof(double)) == 0)
                poke = 2.5;
            ref     = poke;
            bool ok = true;
            for (int i = 0; i < NS; i++)
                if (i != w && live(i) && readable(mod[i].st))
                    ok = ok && AD::snap(*obj[i]).same(pre[i]);
            std::memcpy(&ref, &saved, sizeof(double));
            c.obs.require("independent_after_op", ok, ctx + (side == 0 ? "/write-target" : "/write-source"));
        }
        check_all(ctx, t, s);
    }

    void run()
    {
        int len = rng.range(4, 12);
        c.obs.params.i("length", len);
        for (step = 0; step < len; step++) {
            std::vector<int> empty, lives, sources, movable, settable, solvable;
            for (int i = 0; i < NS; i++) {
                if (!live(i)) {
                    empty.push_back(i);
                    continue;
                }
                lives.push_back(i);
                St st = mod[i].st;
                if (st == ST_BROKEN)
                    continue;
                sources.push_back(i);
                if (st != ST_MOVED && st != ST_COPY_OF_MOVED)
                    movable.push_back(i);
                if (AD::has_set && AD::can_set(mod[i]))
                    settable.push_back(i);
                if (AD::is_solver && (st == ST_FILLED || st == ST_FACTORISED) && AD::solvable(mod[i]))
                    solvable.push_back(i);
            }
            int nontarget = 0; // assignment targets: live, not broken
            nontarget     = (int)sources.size();
            double w[OP_COUNT] = {0};
            if (lives.empty()) {
                w[OP_CONSTRUCT] = 1;
            }
            else {
                if (!empty.empty()) {
                    w[OP_CONSTRUCT] = lives.size() < 2 ? 1.5 : 0.6;
                    w[OP_DEFAULT]   = 0.5;
                    if (!sources.empty())
                        w[OP_COPY_CONSTRUCT] = 1.6;
                    if (!movable.empty())
                        w[OP_MOVE_CONSTRUCT] = 1.1;
                }
                if (!settable.empty())
                    w[OP_SET] = 1.4;
                if (!solvable.empty())
                    w[OP_SOLVE] = 3.0;
                if (nontarget >= 2) {
                    w[OP_COPY_ASSIGN] = 1.6;
                    if (!movable.empty())
                        w[OP_MOVE_ASSIGN] = 1.1;
                }
                if (!sources.empty())
                    w[OP_SELF_ASSIGN] = 0.15;
                w[OP_DESTROY] = 0.6;
            }
            double tot = 0;
            for (double x : w)
                tot += x;
            double u = rng.u01() * tot;
            int op   = 0;
            for (; op < OP_COUNT - 1; op++) {
                if (u < w[op])
                    break;
                u -= w[op];
            }
            while (w[op] == 0) // numerical edge: fall back to the last feasible kind
                op = (op + OP_COUNT - 1) % OP_COUNT;
            switch (op) {
            case OP_CONSTRUCT: do_construct(rng.pick(empty)); break;
            case OP_DEFAULT: do_default(rng.pick(empty)); break;
            case OP_SET: do_set(rng.pick(settable)); break;
            case OP_SOLVE: do_solve(rng.pick(solvable)); break;
            case OP_COPY_CONSTRUCT: do_transfer(OP_COPY_CONSTRUCT, rng.pick(sources), rng.pick(empty)); break;
            case OP_MOVE_CONSTRUCT: do_transfer(OP_MOVE_CONSTRUCT, rng.pick(movable), rng.pick(empty)); break;
            case OP_COPY_ASSIGN:
            case OP_MOVE_ASSIGN: {
                int s = rng.pick(op == OP_COPY_ASSIGN ? sources : movable);
                std::vector<int> tg;
                for (int i : sources)
                    if (i != s)
                        tg.push_back(i);
                do_transfer((OpKind)op, s, rng.pick(tg));
                break;
            }
            case OP_SELF_ASSIGN: do_self_assign(rng.pick(sources)); break;
            default: do_destroy(rng.pick(lives)); break;
            }
        }
        // tear down in random order (double frees / use after free show up here under ASan)
        c.announce(std::string("teardown"));
        for (int k = 0; k < NS; k++) {
            std::vector<int> lives;
            for (int i = 0; i < NS; i++)
                if (live(i))
                    lives.push_back(i);
            if (lives.empty())
                break;
            int t = rng.pick(lives);
            obj[t].reset();
            mod[t] = Model();
            check_all("teardown", -1, -1);
        }
    }

    void report(const std::string& label)
    {
        bool nontrivial = false;
        int ntransfers  = 0;
        for (auto& e : events) {
            ntransfers++;
            if (e.nonempty && e.src_obs && e.dst_obs)
                nontrivial = true;
        }
        JObj sig;
        sig.str("class", label);
        std::string ops;
        for (int k = 0; k < OP_COUNT; k++)
            if (opcount[k] > 0)
                ops += std::string(ops.empty() ? "" : " ") + op_code[k] + (opcount[k] >= 2 ? "2+" : "1");
        sig.str("ops", ops);
        std::string xf;
        for (auto& s : xfer)
            xf += (xf.empty() ? "" : " ") + s;
        sig.str("transfers", xf);
        c.obs.top.obj("sig", sig);
        c.obs.top.b("nontrivial", nontrivial);
        c.obs.info.i("transfers", ntransfers).i("probes", nprobe).i("probes_died", nprobe_fail).i("solves", nsolve).i("model_comparisons", ncompare);
    }
};

template <class AD>
static void run_class(CaseCtx& c, const std::string& label, bool cyclic)
{
    Hist<AD> h(c, cyclic);
    try {
        h.run();
    }
    catch (...) {
        h.report(label);
        throw;
    }
    h.report(label);
}

// A copy carries every stored entry, also one the source does not use at the moment of the copy: the corner element of a
// tridiagonal solver whose cyclic flag is switched off while it is copied and switched on again afterwards (the flag is a
// plain attribute; entries and flag may be set in any order).
static void parked_flag_scenario(CaseCtx& c)
{
    Rng& rng = c.rng;
    const int n = rng.range(3, 12);
    SymmetricTridiagonalSolver<double> S(n), other(n);
    S.is_cyclic(true);
    other.is_cyclic(true);
    double scale = rng.loguniform(1e-2, 1e2);
    for (int i = 0; i < n; i++) {
        S.main_diagonal(i)     = scale * rng.uniform(4.0, 6.0);
        other.main_diagonal(i) = scale * rng.uniform(4.0, 6.0);
    }
    for (int i = 0; i + 1 < n; i++) {
        S.sub_diagonal(i)     = scale * rng.uniform(-1.0, 1.0);
        other.sub_diagonal(i) = scale * rng.uniform(-1.0, 1.0);
    }
    S.cyclic_corner_element()     = scale * rng.uniform(-1.0, 1.0);
    other.cyclic_corner_element() = scale * rng.uniform(-1.0, 1.0);
    const double corner = S.cyclic_corner_element();
    S.is_cyclic(false); // parked
    SymmetricTridiagonalSolver<double> cc(S); // copy construction
    other = S;                                // copy assignment over a live cyclic solver
    S.is_cyclic(true);
    cc.is_cyclic(true);
    other.is_cyclic(true);
    bool corner_ok = cc.cyclic_corner_element() == corner && other.cyclic_corner_element() == corner && S.cyclic_corner_element() == corner;
    c.obs.require("copy_carries_unused_entries", corner_ok, "SymmetricTridiagonalSolver/corner-while-flag-off");
    std::vector<double> b(n), x0, x1, x2, t1(n), t2(n);
    for (auto& v : b)
        v = rng.uniform(-1.0, 1.0);
    x0 = x1 = x2 = b;
    S.solveInPlace(x0.data(), t1.data(), t2.data());
    cc.solveInPlace(x1.data(), t1.data(), t2.data());
    other.solveInPlace(x2.data(), t1.data(), t2.data());
    bool same = std::memcmp(x0.data(), x1.data(), sizeof(double) * n) == 0 && std::memcmp(x0.data(), x2.data(), sizeof(double) * n) == 0;
    c.obs.require("copy_carries_unused_entries", same, "SymmetricTridiagonalSolver/solve-after-flag-restored");
}

static void run_case(CaseCtx& c)
{
    omp_set_num_threads(1); // the objects are tiny; a thread team would only get in the way of fork()
    Rng& rng = c.rng;
    static const char* labels[7] = {"Vector", "SparseMatrixCOO", "SparseMatrixCSR", "SparseLUSolver",
                                    "SymmetricTridiagonalSolver-cyclic", "SymmetricTridiagonalSolver-noncyclic", "DiagonalSolver"};
    static const double weight[7] = {1.0, 1.0, 1.0, 1.2, 1.6, 1.3, 1.0};
    int k = 0;
    std::string only = c.arg("class", "");
    if (!only.empty()) {
        for (k = 0; k < 7; k++)
            if (only == labels[k])
                break;
        if (k == 7)
            throw std::runtime_error("unknown class " + only);
        (void)rng.u01();
    }
    else {
        double tot = 0;
        for (double w : weight)
            tot += w;
        double u = rng.u01() * tot;
        for (k = 0; k < 6; k++) {
            if (u < weight[k])
                break;
            u -= weight[k];
        }
    }
    c.obs.params.str("class", labels[k]);
    c.announce(labels[k]);
    switch (k) {
    case 0: run_class<VectorAD>(c, labels[k], false); break;
    case 1: run_class<CooAD>(c, labels[k], false); break;
    case 2: run_class<CsrAD>(c, labels[k], false); break;
    case 3: run_class<LuAD>(c, labels[k], false); break;
    case 4:
        parked_flag_scenario(c);
        run_class<TriAD>(c, labels[k], true);
        break;
    case 5: run_class<TriAD>(c, labels[k], false); break;
    default: run_class<DiagAD>(c, labels[k], false); break;
    }
}

int main(int argc, char** argv) { return driver_main(argc, argv, "C15", run_case); }
