// OMPT tool for the libomp ("omp") build variant: (1) schedule perturbation -- a pseudo-random delay of 0..VERIF_JITTER_US
// microseconds at every work-sharing begin, barrier begin and implicit-task begin; (2) a trace of parallel regions
// (code address, requested team size, observed team size) appended to VERIF_OMPT_TRACE at exit.
// Loaded through OMP_TOOL_LIBRARIES; nothing is compiled into GMGPolar.
#include <atomic>
#include <cstdint>
#include <cstdio>
#include <cstdlib>
#include <cstring>
#include <dlfcn.h>
#include <map>
#include <mutex>
#include <omp-tools.h>
#include <time.h>
#include <unistd.h>

static std::atomic<uint64_t> g_events{0}, g_delays{0};
static uint64_t g_seed = 1;
static int g_max_us    = 0;
static std::mutex& g_mu = *new std::mutex; // never destroyed: tool_fini runs after static destructors
struct RegionStat { uint64_t count = 0; unsigned min_team = ~0u, max_team = 0; };
static std::map<const void*, RegionStat>& g_regions = *new std::map<const void*, RegionStat>;
static ompt_get_thread_data_t g_get_thread_data;

static inline uint64_t mix(uint64_t x)
{
    x += 0x9e3779b97f4a7c15ULL;
    x = (x ^ (x >> 30)) * 0xbf58476d1ce4e5b9ULL;
    x = (x ^ (x >> 27)) * 0x94d049bb133111ebULL;
    return x ^ (x >> 31);
}
static void jitter(uint64_t salt)
{
    uint64_t n = g_events.fetch_add(1, std::memory_order_relaxed);
    if (g_max_us <= 0)
        return;
    uint64_t r = mix(g_seed ^ mix(n * 0x10001ULL + salt));
    if ((r & 3) != 0) // delay a quarter of the events
        return;
    unsigned us = (unsigned)((r >> 8) % (unsigned)(g_max_us + 1));
    g_delays.fetch_add(1, std::memory_order_relaxed);
    struct timespec ts = {0, (long)us * 1000L};
    nanosleep(&ts, nullptr);
}
static void on_parallel_begin(ompt_data_t*, const ompt_frame_t*, ompt_data_t* parallel_data, unsigned int requested, int, const void* codeptr)
{
    parallel_data->ptr = const_cast<void*>(codeptr);
    std::lock_guard<std::mutex> l(g_mu);
    RegionStat& s = g_regions[codeptr];
    s.count++;
    (void)requested;
}
static void on_implicit_task(ompt_scope_endpoint_t ep, ompt_data_t* parallel_data, ompt_data_t*, unsigned int team, unsigned int index, int flags)
{
    if (ep != ompt_scope_begin)
        return;
    if (index == 0 && parallel_data && parallel_data->ptr && !(flags & ompt_task_initial)) {
        std::lock_guard<std::mutex> l(g_mu);
        RegionStat& s = g_regions[parallel_data->ptr];
        if (team < s.min_team)
            s.min_team = team;
        if (team > s.max_team)
            s.max_team = team;
    }
    jitter(0x11 + index);
}
static void on_work(ompt_work_t, ompt_scope_endpoint_t ep, ompt_data_t*, ompt_data_t*, uint64_t, const void*)
{
    if (ep == ompt_scope_begin)
        jitter(0x22);
}
static void on_sync(ompt_sync_region_t, ompt_scope_endpoint_t ep, ompt_data_t*, ompt_data_t*, const void*)
{
    if (ep == ompt_scope_begin)
        jitter(0x33);
}
static int tool_init(ompt_function_lookup_t lookup, int, ompt_data_t*)
{
    const char* s = getenv("VERIF_JITTER_SEED");
    g_seed        = s ? strtoull(s, nullptr, 10) : 1;
    g_seed ^= mix((uint64_t)getpid());
    const char* u = getenv("VERIF_JITTER_US");
    g_max_us      = u ? atoi(u) : 0;
    auto set_cb   = (ompt_set_callback_t)lookup("ompt_set_callback");
    set_cb(ompt_callback_parallel_begin, (ompt_callback_t)on_parallel_begin);
    set_cb(ompt_callback_implicit_task, (ompt_callback_t)on_implicit_task);
    set_cb(ompt_callback_work, (ompt_callback_t)on_work);
    set_cb(ompt_callback_sync_region, (ompt_callback_t)on_sync);
    return 1;
}
static void tool_fini(ompt_data_t*)
{
    const char* f = getenv("VERIF_OMPT_TRACE");
    if (!f)
        return;
    FILE* fp = fopen(f, "a");
    if (!fp)
        return;
    for (auto& kv : g_regions) {
        // address relative to the load base of its module, so that regions can be compared between processes (ASLR)
        Dl_info di;
        unsigned long long off = (unsigned long long)(uintptr_t)kv.first;
        const char* mod        = "?";
        if (dladdr(kv.first, &di) && di.dli_fbase) {
            off = (unsigned long long)((const char*)kv.first - (const char*)di.dli_fbase);
            mod = di.dli_fname ? (strrchr(di.dli_fname, '/') ? strrchr(di.dli_fname, '/') + 1 : di.dli_fname) : "?";
        }
        fprintf(fp, "{\"pid\":%ld,\"region\":\"%s+0x%llx\",\"count\":%llu,\"min_team\":%u,\"max_team\":%u}\n", (long)getpid(), mod, off,
                (unsigned long long)kv.second.count, kv.second.min_team == ~0u ? 0 : kv.second.min_team, kv.second.max_team);
    }
    fprintf(fp, "{\"pid\":%ld,\"events\":%llu,\"delays\":%llu}\n", (long)getpid(), (unsigned long long)g_events.load(), (unsigned long long)g_delays.load());
    fclose(fp);
}
extern "C" ompt_start_tool_result_t* ompt_start_tool(unsigned int, const char*)
{
    static ompt_start_tool_result_t r = {&tool_init, &tool_fini, {0}};
    return &r;
}
