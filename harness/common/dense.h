// Dense long-double reference linear algebra.
#pragma once
#include <cmath>
#include <vector>
typedef long double ld;

// LU with partial pivoting, solves A x = b (A row-major n x n, destroyed). Returns false if singular.
inline bool dense_solve(std::vector<ld> A, std::vector<ld> b, int n, std::vector<ld>& x)
{
    std::vector<int> piv(n);
    for (int k = 0; k < n; k++) {
        int p = k;
        ld m  = fabsl(A[(size_t)k * n + k]);
        for (int i = k + 1; i < n; i++)
            if (fabsl(A[(size_t)i * n + k]) > m) {
                m = fabsl(A[(size_t)i * n + k]);
                p = i;
            }
        if (m == 0)
            return false;
        if (p != k) {
            for (int j = 0; j < n; j++)
                std::swap(A[(size_t)k * n + j], A[(size_t)p * n + j]);
            std::swap(b[k], b[p]);
        }
        for (int i = k + 1; i < n; i++) {
            ld f = A[(size_t)i * n + k] / A[(size_t)k * n + k];
            if (f == 0)
                continue;
            for (int j = k; j < n; j++)
                A[(size_t)i * n + j] -= f * A[(size_t)k * n + j];
            b[i] -= f * b[k];
        }
    }
    x.assign(n, 0);
    for (int i = n - 1; i >= 0; i--) {
        ld s = b[i];
        for (int j = i + 1; j < n; j++)
            s -= A[(size_t)i * n + j] * x[j];
        x[i] = s / A[(size_t)i * n + i];
    }
    return true;
}

// LU without pivoting; returns growth factor max|u_ij|/max|a_ij|, or -1 if a zero pivot occurs. min_pivot_rel = min |u_kk| / max|a|.
inline ld nopivot_growth(std::vector<ld> A, int n, ld* min_pivot_abs = nullptr)
{
    ld amax = 0;
    for (auto v : A)
        amax = std::max(amax, fabsl(v));
    ld umax = amax, pmin = INFINITY;
    for (int k = 0; k < n; k++) {
        ld p = A[(size_t)k * n + k];
        pmin = std::min(pmin, fabsl(p));
        if (p == 0) {
            if (min_pivot_abs)
                *min_pivot_abs = 0;
            return -1;
        }
        for (int i = k + 1; i < n; i++) {
            ld f = A[(size_t)i * n + k] / p;
            if (f == 0)
                continue;
            for (int j = k + 1; j < n; j++) {
                A[(size_t)i * n + j] -= f * A[(size_t)k * n + j];
                umax = std::max(umax, fabsl(A[(size_t)i * n + j]));
            }
            umax = std::max(umax, fabsl(f)); // L entries too
        }
    }
    if (min_pivot_abs)
        *min_pivot_abs = pmin;
    return amax > 0 ? umax / amax : 1;
}

// Cholesky of a symmetric matrix (uses lower triangle). Returns min pivot (d_k before sqrt) relative to max diag; <=0 => not PD.
inline ld cholesky_min_pivot(std::vector<ld> A, int n)
{
    ld dmax = 0;
    for (int i = 0; i < n; i++)
        dmax = std::max(dmax, fabsl(A[(size_t)i * n + i]));
    ld pmin = INFINITY;
    for (int k = 0; k < n; k++) {
        ld d = A[(size_t)k * n + k];
        for (int j = 0; j < k; j++)
            d -= A[(size_t)k * n + j] * A[(size_t)k * n + j];
        pmin = std::min(pmin, d / dmax);
        if (!(d > 0))
            return pmin;
        ld l                = sqrtl(d);
        A[(size_t)k * n + k] = l;
        for (int i = k + 1; i < n; i++) {
            ld s = A[(size_t)i * n + k];
            for (int j = 0; j < k; j++)
                s -= A[(size_t)i * n + j] * A[(size_t)k * n + j];
            A[(size_t)i * n + k] = s / l;
        }
    }
    return pmin;
}
