// Solver-level configuration: builds GMGPolar objects through the programming interface (pointer route) or through the
// command-line parser (CLI route) from one description.
#pragma once
#include "../repo_include.h"
#include "access.h"
#include "factory.h"
#include "obslog.h"
#include "rng.h"
#include <memory>
#include <string>
#include <vector>

struct SolverConfig {
    ProblemSpec ps;
    double R0 = 1e-5;
    int nr_exp = 4, ntheta_exp = -1, aniso = 0, divideBy2 = 0;
    bool dirbc = false;
    int strategy = 1; // 0 take, 1 give
    bool cache_prof = true, cache_geo = true;
    int extrapolation = 0; // 0 none, 1 implicit, 2 full-grid smoothing, 3 combined
    int maxLevels = -1;
    int cycle = 0; // 0 V, 1 W, 2 F
    int pre = 1, post = 1;
    bool fmg = false;
    int fmg_iters = 2, fmg_cycle = 0;
    int maxIterations = 150;
    int norm = 0; // 0 euclidean, 1 weighted, 2 infinity
    double abs_tol = 1e-8, rel_tol = 1e-8; // <= 0: disabled
    int threads = 1;
    double thread_reduction = 1.0;
    bool with_exact = true;

    void describe(JObj& o) const
    {
        ps.describe(o);
        o.num("R0", R0).i("nr_exp", nr_exp).i("ntheta_exp", ntheta_exp).i("anisotropic_factor", aniso).i("divideBy2", divideBy2);
        o.b("DirBC_Interior", dirbc).str("strategy", strategy ? "give" : "take").b("cache_profile", cache_prof).b("cache_geometry", cache_geo);
        o.i("extrapolation", extrapolation).i("maxLevels", maxLevels).i("cycle", cycle).i("pre", pre).i("post", post);
        o.b("FMG", fmg).i("FMG_iterations", fmg_iters).i("FMG_cycle", fmg_cycle).i("maxIterations", maxIterations).i("norm", norm);
        o.num("abs_tol", abs_tol).num("rel_tol", rel_tol).i("threads", threads).num("thread_reduction", thread_reduction).b("with_exact", with_exact);
    }
    // leave_defaults: a setter is only called when the value differs from the documented default of the option (the
    // pointer-route constructor installs the parser defaults), the way an application would configure the solver
    bool leave_defaults = false;
    void apply_options(GMGPolar& g) const
    {
        const bool all = !leave_defaults;
        if (all || R0 != 1e-5) g.R0(R0);
        if (all || ps.Rmax != 1.3) g.Rmax(ps.Rmax);
        if (all || nr_exp != 5) g.nr_exp(nr_exp);
        if (all || ntheta_exp != -1) g.ntheta_exp(ntheta_exp);
        g.anisotropic_factor(aniso);
        if (all || divideBy2 != 0) g.divideBy2(divideBy2);
        g.write_grid_file(false);
        g.load_grid_file(false);
        if (all || dirbc) g.DirBC_Interior(dirbc);
        if (all || fmg) g.FMG(fmg);
        if (all || fmg_iters != 2) g.FMG_iterations(fmg_iters);
        if (all || fmg_cycle != 0) g.FMG_cycle(static_cast<MultigridCycleType>(fmg_cycle));
        if (all || extrapolation != 0) g.extrapolation(static_cast<ExtrapolationType>(extrapolation));
        if (all || maxLevels != -1) g.maxLevels(maxLevels);
        if (all || cycle != 0) g.multigridCycle(static_cast<MultigridCycleType>(cycle));
        if (all || pre != 1) g.preSmoothingSteps(pre);
        if (all || post != 1) g.postSmoothingSteps(post);
        if (all || maxIterations != 150) g.maxIterations(maxIterations);
        if (all || norm != 0) g.residualNormType(static_cast<ResidualNormType>(norm));
        g.absoluteTolerance(abs_tol);
        g.relativeTolerance(rel_tol);
        g.verbose(0);
        g.paraview(false);
        if (all || threads != 1) g.maxOpenMPThreads(threads);
        g.threadReductionFactor(thread_reduction);
        if (all || strategy != 0) g.stencilDistributionMethod(strategy ? StencilDistributionMethod::CPU_GIVE : StencilDistributionMethod::CPU_TAKE);
        if (all || !cache_prof) g.cacheDensityProfileCoefficients(cache_prof);
        if (all || !cache_geo) g.cacheDomainGeometry(cache_geo);
    }
    // pointer route: input functions built by the harness's own table
    std::unique_ptr<GMGPolar> make_api() const
    {
        auto g = std::make_unique<GMGPolar>(make_geometry(ps), make_profile(ps), make_boundary(ps), make_source(ps));
        if (with_exact)
            g->setSolution(make_exact(ps));
        apply_options(*g);
        return g;
    }
    std::vector<std::string> cli_args() const
    {
        std::vector<std::string> a = {"gmgpolar"};
        auto add = [&](const std::string& k, const std::string& v) {
            a.push_back("--" + k);
            a.push_back(v);
        };
        auto num = [](double v) {
            char b[40];
            snprintf(b, sizeof b, "%.17g", v);
            return std::string(b);
        };
        add("R0", num(R0));
        add("Rmax", num(ps.Rmax));
        add("nr_exp", std::to_string(nr_exp));
        add("ntheta_exp", std::to_string(ntheta_exp));
        add("anisotropic_factor", std::to_string(aniso));
        add("divideBy2", std::to_string(divideBy2));
        add("DirBC_Interior", std::to_string((int)dirbc));
        add("geometry", std::to_string(ps.geom));
        add("alpha_jump", num(ps.alpha_jump));
        add("kappa_eps", num(ps.p1));
        add("delta_e", num(ps.p2));
        add("problem", std::to_string(ps.prob));
        add("alpha_coeff", std::to_string(prof_alpha_coeff(ps.prof)));
        add("beta_coeff", std::to_string(prof_beta_coeff(ps.prof)));
        add("FMG", std::to_string((int)fmg));
        add("FMG_iterations", std::to_string(fmg_iters));
        add("FMG_cycle", std::to_string(fmg_cycle));
        add("extrapolation", std::to_string(extrapolation));
        add("maxLevels", std::to_string(maxLevels));
        add("preSmoothingSteps", std::to_string(pre));
        add("postSmoothingSteps", std::to_string(post));
        add("multigridCycle", std::to_string(cycle));
        add("maxIterations", std::to_string(maxIterations));
        add("residualNormType", std::to_string(norm));
        add("absoluteTolerance", num(abs_tol > 0 ? abs_tol : -1.0));
        add("relativeTolerance", num(rel_tol > 0 ? rel_tol : -1.0));
        add("verbose", "0");
        add("paraview", "0");
        add("maxOpenMPThreads", std::to_string(threads));
        add("threadReductionFactor", num(thread_reduction));
        add("stencilDistributionMethod", std::to_string(strategy));
        add("cacheDensityProfileCoefficients", std::to_string((int)cache_prof));
        add("cacheDomainGeometry", std::to_string((int)cache_geo));
        return a;
    }
    // CLI route: default-constructed object configured by the command-line parser (exercises parser + selection tables)
    std::unique_ptr<GMGPolar> make_cli() const
    {
        auto g = std::make_unique<GMGPolar>();
        std::vector<std::string> a = cli_args();
        std::vector<char*> argv;
        for (auto& s : a)
            argv.push_back(const_cast<char*>(s.c_str()));
        g->setParameters((int)argv.size(), argv.data());
        return g;
    }
};

// random problem from the configuration set of C01/C02 (no Culham; Refined only with ZoniShiftedGyro)
inline ProblemSpec random_solver_problem(Rng& rng, bool allow_refined = true, bool documented_jump = true)
{
    ProblemSpec s;
    s.Rmax = 1.3;
    s.geom = rng.range(0, 2);
    s.prof = rng.range(0, 6);
    s.prob = rng.range(0, allow_refined ? 3 : 2);
    if (s.prob == P_REFINED)
        s.prof = F_ZONISH_GYRO;
    random_geom_params(rng, s, rng.coin(0.5));
    s.alpha_jump = documented_jump ? documented_alpha_jump(s.prof, s.Rmax) : rng.uniform(0.3, 0.9) * s.Rmax;
    return s;
}
