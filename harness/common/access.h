// Guarded accessor: GMGPolar declares `friend struct GMGPolarVerifAccess;` when GMGPOLAR_VERIF is defined.
#pragma once
#include "../repo_include.h"

struct GMGPolarVerifAccess {
    static int& number_of_levels(GMGPolar& g) { return g.number_of_levels_; }
    static std::vector<Level>& levels(GMGPolar& g) { return g.levels_; }
    static std::vector<int>& threads_per_level(GMGPolar& g) { return g.threads_per_level_; }
    static bool& full_grid_smoothing(GMGPolar& g) { return g.full_grid_smoothing_; }
    static Interpolation& interpolation(GMGPolar& g) { return *g.interpolation_; }
    static std::vector<double>& residual_norms(GMGPolar& g) { return g.residual_norms_; }
    static std::vector<std::pair<double, double>>& exact_errors(GMGPolar& g) { return g.exact_errors_; }
    static const DomainGeometry* geometry(const GMGPolar& g) { return g.domain_geometry_.get(); }
    static const DensityProfileCoefficients* profile(const GMGPolar& g) { return g.density_profile_coefficients_.get(); }
    static const BoundaryConditions* boundary(const GMGPolar& g) { return g.boundary_conditions_.get(); }
    static const SourceTerm* source(const GMGPolar& g) { return g.source_term_.get(); }
    static const ExactSolution* exact(const GMGPolar& g) { return g.exact_solution_.get(); }
    static void initializeSolution(GMGPolar& g) { g.initializeSolution(); }
    // the solver's own level-transfer wrappers (what the cycles call); which: 0 prolongation, 1 restriction, 2 injection,
    // 3 extrapolated prolongation, 4 extrapolated restriction, 5 FMG interpolation
    static void transfer(const GMGPolar& g, int which, int level, Vector<double>& result, const Vector<double>& x)
    {
        switch (which) {
        case 0: g.prolongation(level, result, x); break;
        case 1: g.restriction(level, result, x); break;
        case 2: g.injection(level, result, x); break;
        case 3: g.extrapolatedProlongation(level, result, x); break;
        case 4: g.extrapolatedRestriction(level, result, x); break;
        default: g.FMGInterpolation(level, result, x); break;
        }
    }
    // cycle: 0 V, 1 W, 2 F; extrapolated: implicit extrapolation variant
    static void cycle(GMGPolar& g, int type, bool extrapolated, int depth, Vector<double>& sol, Vector<double>& rhs, Vector<double>& res)
    {
        if (!extrapolated) {
            if (type == 0)
                g.multigrid_V_Cycle(depth, sol, rhs, res);
            else if (type == 1)
                g.multigrid_W_Cycle(depth, sol, rhs, res);
            else
                g.multigrid_F_Cycle(depth, sol, rhs, res);
        }
        else {
            if (type == 0)
                g.implicitlyExtrapolatedMultigrid_V_Cycle(depth, sol, rhs, res);
            else if (type == 1)
                g.implicitlyExtrapolatedMultigrid_W_Cycle(depth, sol, rhs, res);
            else
                g.implicitlyExtrapolatedMultigrid_F_Cycle(depth, sol, rhs, res);
        }
    }
};
