// Shared pieces of the smoother monitors (C06, C07).
#pragma once
#include "kit.h"
#include "ref_operator.h"

struct MeshStats {
    double h_ratio, k_ratio;
    bool mild;
};
inline MeshStats mesh_stats(const PolarGrid& grid, double Rmax)
{
    double hmin = 1e300, hmax = 0, kmin = 1e300, kmax = 0;
    for (int i = 0; i + 1 < grid.nr(); i++) {
        hmin = std::min(hmin, grid.radialSpacing(i));
        hmax = std::max(hmax, grid.radialSpacing(i));
    }
    for (int j = 0; j < grid.ntheta(); j++) {
        kmin = std::min(kmin, grid.angularSpacing(j));
        kmax = std::max(kmax, grid.angularSpacing(j));
    }
    MeshStats m;
    m.h_ratio = hmax / hmin;
    m.k_ratio = kmax / kmin;
    m.mild    = grid.radius(0) >= 0.05 * Rmax && m.h_ratio <= 100 && m.k_ratio <= 100;
    return m;
}

// row-normwise scaled residual of row (i,j): |f - A x| / (sum_j |A_ij| * ||x||_inf + |f_i|)
struct ScaledResidual {
    std::vector<ld> Ax;
    std::vector<ld> rowsum;
    double xinf = 0;
    void compute(const RefOp& ref, const Vector<double>& x)
    {
        ref.apply(x, Ax);
        xinf = 0;
        for (int k = 0; k < x.size(); k++)
            xinf = std::max(xinf, std::fabs(x[k]));
        if (rowsum.empty()) {
            rowsum.assign(ref.n(), 0.0L);
            std::vector<std::pair<int, ld>> e;
            for (int i = 0; i < ref.nr; i++)
                for (int j = 0; j < ref.nt; j++) {
                    ref.row(i, j, e, true);
                    ld s = 0;
                    for (auto& p : e)
                        s += fabsl(p.second);
                    rowsum[ref.lib(i, j)] = s;
                }
        }
    }
    double at(int k, const Vector<double>& f) const
    {
        ld s = rowsum[k] * (ld)xinf + fabsl((ld)f[k]);
        ld r = (ld)f[k] - Ax[k];
        return s > 0 ? (double)(fabsl(r) / s) : (r == 0 ? 0.0 : 1.0);
    }
};

// energy <A e, e> over non-Dirichlet rows (e must vanish on Dirichlet nodes)
inline ld energy(const RefOp& ref, const Vector<double>& e)
{
    std::vector<ld> Ae;
    ref.apply(e, Ae);
    ld s = 0;
    for (int i = 0; i < ref.nr; i++) {
        if (ref.is_dirichlet_row(i))
            continue;
        for (int j = 0; j < ref.nt; j++) {
            int k = ref.lib(i, j);
            s += Ae[k] * (ld)e[k];
        }
    }
    return s;
}
