// C14 helpers: long-double reference algebra for symmetric (cyclic) tridiagonal systems.
// Shares nothing with include/LinearAlgebra/symmetricTridiagonalSolver.h: the reference factorisation is a bordered
// ("arrow") LDL^T of the cyclic matrix itself, not a Sherman-Morrison splitting.
#pragma once
#include <algorithm>
#include <cmath>
#include <vector>
typedef long double ld;

// The matrix as it is handed to the solver: main diagonal d[0..n-1], sub-diagonal s[0..n-2] (entry (i,i+1) = (i+1,i)),
// corner c (entry (0,n-1) = (n-1,0)) if cyclic.  For cyclic n = 2 the corner position IS the sub-diagonal position:
// the matrix is [[d0, s0+c],[s0+c, d1]] (what the Sherman-Morrison formulas of the solver imply).
struct TriSys {
    int n       = 0;
    bool cyclic = false;
    std::vector<double> d, s;
    double c = 0.0;
    bool overlap() const { return cyclic && n == 2; }
    bool offdiag_nonzero() const
    {
        for (double v : s)
            if (v != 0.0)
                return true;
        return cyclic && c != 0.0;
    }
};

// Ax and |A||x| in long double.  For the n = 2 overlap the magnitude of the (0,1) entry is |s0|+|c| (the data the
// algorithm works with), the value is s0+c.
inline void tri_apply(const TriSys& A, const std::vector<ld>& x, std::vector<ld>& Ax, std::vector<ld>& absAx)
{
    const int n = A.n;
    Ax.assign(n, 0.0L);
    absAx.assign(n, 0.0L);
    for (int i = 0; i < n; i++) {
        Ax[i]    = (ld)A.d[i] * x[i];
        absAx[i] = fabsl((ld)A.d[i]) * fabsl(x[i]);
    }
    auto couple = [&](int i, int j, ld e, ld m) {
        Ax[i] += e * x[j];
        Ax[j] += e * x[i];
        absAx[i] += m * fabsl(x[j]);
        absAx[j] += m * fabsl(x[i]);
    };
    if (A.overlap()) {
        couple(0, 1, (ld)A.s[0] + (ld)A.c, fabsl((ld)A.s[0]) + fabsl((ld)A.c));
        return;
    }
    for (int i = 0; i + 1 < n; i++)
        couple(i, i + 1, (ld)A.s[i], fabsl((ld)A.s[i]));
    if (A.cyclic)
        couple(0, n - 1, (ld)A.c, fabsl((ld)A.c));
}

inline ld tri_norm_inf(const TriSys& A)
{
    std::vector<ld> one(A.n, 1.0L), t, a;
    tri_apply(A, one, t, a);
    ld m = 0;
    for (ld v : a)
        m = std::max(m, v);
    return m;
}

// Bordered LDL^T in long double of the (cyclic) tridiagonal matrix, O(n).
//   L(k+1,k) = l1[k] (k < n-2),  L(n-1,k) = lz[k] (k <= n-2),  D = p.
// spd() iff every pivot is > 0.  piv_rel = min_k p_k / a_kk (scale invariant, in (0,1] for SPD), piv_abs = min_k p_k.
struct RefLDLT {
    int n = 0;
    std::vector<ld> p, l1, lz;
    ld piv_rel = 0, piv_abs = 0;
    bool ok    = false;
    explicit RefLDLT(const TriSys& A)
    {
        n = A.n;
        p.assign(n, 0.0L);
        l1.assign(n, 0.0L);
        lz.assign(n, 0.0L);
        std::vector<ld> z(n, 0.0L);
        for (int i = 0; i < n; i++)
            p[i] = A.d[i];
        if (A.cyclic)
            z[0] = A.c;
        z[n - 2] += (ld)A.s[n - 2]; // n = 2: z[0] = c + s0
        piv_rel = INFINITY;
        piv_abs = INFINITY;
        ok      = true;
        for (int k = 0; k <= n - 2; k++) {
            if (!(p[k] > 0)) {
                ok = false;
                piv_rel = std::min(piv_rel, p[k] / fabsl((ld)A.d[k]));
                piv_abs = std::min(piv_abs, p[k]);
                return;
            }
            piv_rel = std::min(piv_rel, p[k] / (ld)A.d[k]);
            piv_abs = std::min(piv_abs, p[k]);
            lz[k]   = z[k] / p[k];
            if (k < n - 2) {
                l1[k] = (ld)A.s[k] / p[k];
                p[k + 1] -= l1[k] * (ld)A.s[k];
                z[k + 1] -= lz[k] * (ld)A.s[k];
            }
            p[n - 1] -= lz[k] * z[k];
        }
        if (!(p[n - 1] > 0))
            ok = false;
        piv_rel = std::min(piv_rel, p[n - 1] / fabsl((ld)A.d[n - 1]));
        piv_abs = std::min(piv_abs, p[n - 1]);
    }
    bool spd() const { return ok; }
    void solve(std::vector<ld> b, std::vector<ld>& x) const
    {
        for (int k = 0; k <= n - 2; k++) {
            if (k < n - 2)
                b[k + 1] -= l1[k] * b[k];
            b[n - 1] -= lz[k] * b[k];
        }
        x.assign(n, 0.0L);
        x[n - 1] = b[n - 1] / p[n - 1];
        for (int k = n - 2; k >= 0; k--)
            x[k] = b[k] / p[k] - (k < n - 2 ? l1[k] * x[k + 1] : 0.0L) - lz[k] * x[n - 1];
    }
};

// Plain long-double tridiagonal solve (no pivoting; used for SPD B only).
inline void ref_tridiag_solve(const std::vector<ld>& d, const std::vector<ld>& s, std::vector<ld> b, std::vector<ld>& x)
{
    const int n = (int)d.size();
    std::vector<ld> p(d), l(n, 0.0L);
    for (int i = 1; i < n; i++) {
        l[i - 1] = s[i - 1] / p[i - 1];
        p[i] -= l[i - 1] * s[i - 1];
        b[i] -= l[i - 1] * b[i - 1];
    }
    x.assign(n, 0.0L);
    x[n - 1] = b[n - 1] / p[n - 1];
    for (int i = n - 2; i >= 0; i--)
        x[i] = b[i] / p[i] - l[i] * x[i + 1];
}

// A-priori error scale of ANY Sherman-Morrison solve of A = B + u v^T with u = (g,0,..,0,c), v = (1,0,..,0,c/g), g = -d0:
//   x = y - f q,  B y = b,  B q = u,  f = v.y / (1 + v.q).
// Each of the two tridiagonal solves is (componentwise) backward stable w.r.t. B, so the residual of x w.r.t. A is
// bounded by a small multiple of eps times
//   S = (|A|+|B|)(|y| + |f||q|) + |b| + |u| ( |v|.|y| + |f| (1 + |v|.|q|) )
// which can exceed |A||x|+|b| when y and f q cancel.  amp = ||S|| / (||A|| ||x|| + ||b||) measures that excess.
// All quantities are computed here in long double from the original entries (independent of the solver's arithmetic).
struct SMScale {
    std::vector<ld> S;
    ld tau = 0; // 1 + v.q = det(A)/det(B)
    ld f   = 0;
};
inline SMScale sm_scale(const TriSys& A, const std::vector<ld>& b)
{
    const int n = A.n;
    SMScale r;
    ld d0 = A.d[0], c = A.c, g = -d0, vn = c / g;
    std::vector<ld> bd(n), bs(n - 1), u(n, 0.0L), y, q;
    for (int i = 0; i < n; i++)
        bd[i] = A.d[i];
    for (int i = 0; i + 1 < n; i++)
        bs[i] = A.s[i];
    bd[0] -= g;
    bd[n - 1] -= c * c / g;
    u[0]     = g;
    u[n - 1] += c; // n >= 2
    ref_tridiag_solve(bd, bs, b, y);
    ref_tridiag_solve(bd, bs, u, q);
    r.tau = 1.0L + q[0] + vn * q[n - 1];
    r.f   = (y[0] + vn * y[n - 1]) / r.tau;
    std::vector<ld> w(n), t, aw;
    for (int i = 0; i < n; i++)
        w[i] = fabsl(y[i]) + fabsl(r.f) * fabsl(q[i]);
    tri_apply(A, w, t, aw);
    r.S.assign(n, 0.0L);
    ld vy = fabsl(y[0]) + fabsl(vn) * fabsl(y[n - 1]);
    ld vq = fabsl(q[0]) + fabsl(vn) * fabsl(q[n - 1]);
    for (int i = 0; i < n; i++) {
        ld Bw = fabsl(bd[i]) * w[i];
        if (i > 0)
            Bw += fabsl(bs[i - 1]) * w[i - 1];
        if (i + 1 < n)
            Bw += fabsl(bs[i]) * w[i + 1];
        r.S[i] = aw[i] + Bw + fabsl(b[i]) + fabsl(u[i]) * (vy + fabsl(r.f) * (1.0L + vq));
    }
    return r;
}
