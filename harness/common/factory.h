// Independent table (geometry, problem, profile) -> shipped input-function classes.
// Written from the class names under include/InputFunctions; shares nothing with src/GMGPolar/select_test_case.cpp.
#pragma once
#include "../repo_include.h"
#include "obslog.h"
#include "rng.h"
#include <memory>
#include <stdexcept>
#include <string>

enum Geom { G_CIRCULAR = 0, G_SHAFRANOV = 1, G_CZARNY = 2, G_CULHAM = 3 };
enum Prob { P_CARTESIAN_R2 = 0, P_CARTESIAN_R6 = 1, P_POLAR_R6 = 2, P_REFINED = 3 };
// profile: 0 Poisson, 1 Sonnendrucker, 2 SonnendruckerGyro, 3 Zoni, 4 ZoniGyro, 5 ZoniShifted, 6 ZoniShiftedGyro
enum Prof { F_POISSON = 0, F_SONN = 1, F_SONN_GYRO = 2, F_ZONI = 3, F_ZONI_GYRO = 4, F_ZONISH = 5, F_ZONISH_GYRO = 6 };

inline const char* geom_name(int g)
{
    static const char* n[] = {"Circular", "Shafranov", "Czarny", "Culham"};
    return n[g];
}
inline const char* prob_name(int p)
{
    static const char* n[] = {"CartesianR2", "CartesianR6", "PolarR6", "Refined"};
    return n[p];
}
inline const char* prof_name(int f)
{
    static const char* n[] = {"Poisson", "Sonnendrucker", "SonnendruckerGyro", "Zoni", "ZoniGyro", "ZoniShifted", "ZoniShiftedGyro"};
    return n[f];
}
// command-line integers for a profile
inline int prof_alpha_coeff(int f) { return f == 0 ? 0 : (f <= 2 ? 1 : (f <= 4 ? 2 : 3)); }
inline int prof_beta_coeff(int f) { return (f == 2 || f == 4 || f == 6) ? 1 : 0; }
inline bool prof_is_gyro(int f) { return prof_beta_coeff(f) == 1; }

struct ProblemSpec {
    int geom = 0, prob = 0, prof = 0;
    double Rmax = 1.3;
    double p1 = 0.0, p2 = 0.0; // Shafranov: kappa, delta; Czarny: epsilon, e
    double alpha_jump = 0.0;
    bool mirror = false; // orientation-reversing variant (x -> -x) of the mapping: det DF < 0, same metric, same operator
    std::string name() const { return std::string(prob_name(prob)) + "_" + prof_name(prof) + "_" + geom_name(geom); }
    void describe(JObj& o) const
    {
        o.str("geometry", geom_name(geom)).str("problem", prob_name(prob)).str("profile", prof_name(prof));
        o.num("Rmax", Rmax).num("geom_p1", p1).num("geom_p2", p2).num("alpha_jump", alpha_jump).b("mirrored", mirror);
    }
};

// documented jump radii (README): fraction of Rmax per alpha profile
inline double documented_alpha_jump(int prof, double Rmax)
{
    switch (prof) {
    case F_POISSON: return 0.5 * Rmax;
    case F_SONN:
    case F_SONN_GYRO: return 0.66 * Rmax;
    case F_ZONI:
    case F_ZONI_GYRO: return 0.4837 * Rmax;
    default: return 0.7081 * Rmax;
    }
}

// A user-defined geometry: the mirror image of a shipped mapping. The library takes |det DF| everywhere, so an
// orientation-reversing mapping is legal input and yields the same metric coefficients, hence the same operator.
class MirroredGeometry : public DomainGeometry
{
public:
    explicit MirroredGeometry(std::unique_ptr<DomainGeometry> inner) : g_(std::move(inner)) {}
    double Fx(const double& r, const double& t, const double& s, const double& c) const override { return -g_->Fx(r, t, s, c); }
    double Fy(const double& r, const double& t, const double& s, const double& c) const override { return g_->Fy(r, t, s, c); }
    double dFx_dr(const double& r, const double& t, const double& s, const double& c) const override { return -g_->dFx_dr(r, t, s, c); }
    double dFy_dr(const double& r, const double& t, const double& s, const double& c) const override { return g_->dFy_dr(r, t, s, c); }
    double dFx_dt(const double& r, const double& t, const double& s, const double& c) const override { return -g_->dFx_dt(r, t, s, c); }
    double dFy_dt(const double& r, const double& t, const double& s, const double& c) const override { return g_->dFy_dt(r, t, s, c); }

private:
    std::unique_ptr<DomainGeometry> g_;
};

inline std::unique_ptr<DomainGeometry> make_geometry_plain(const ProblemSpec& s);
inline std::unique_ptr<DomainGeometry> make_geometry(const ProblemSpec& s)
{
    if (s.mirror)
        return std::make_unique<MirroredGeometry>(make_geometry_plain(s));
    return make_geometry_plain(s);
}
inline std::unique_ptr<DomainGeometry> make_geometry_plain(const ProblemSpec& s)
{
    switch (s.geom) {
    case G_CIRCULAR: return std::make_unique<CircularGeometry>(s.Rmax);
    case G_SHAFRANOV: return std::make_unique<ShafranovGeometry>(s.Rmax, s.p1, s.p2);
    case G_CZARNY: return std::make_unique<CzarnyGeometry>(s.Rmax, s.p1, s.p2);
    case G_CULHAM: return std::make_unique<CulhamGeometry>(s.Rmax);
    }
    throw std::runtime_error("factory: bad geometry");
}
inline std::unique_ptr<DensityProfileCoefficients> make_profile(const ProblemSpec& s)
{
    switch (s.prof) {
    case F_POISSON: return std::make_unique<PoissonCoefficients>(s.Rmax, s.alpha_jump);
    case F_SONN: return std::make_unique<SonnendruckerCoefficients>(s.Rmax, s.alpha_jump);
    case F_SONN_GYRO: return std::make_unique<SonnendruckerGyroCoefficients>(s.Rmax, s.alpha_jump);
    case F_ZONI: return std::make_unique<ZoniCoefficients>(s.Rmax, s.alpha_jump);
    case F_ZONI_GYRO: return std::make_unique<ZoniGyroCoefficients>(s.Rmax, s.alpha_jump);
    case F_ZONISH: return std::make_unique<ZoniShiftedCoefficients>(s.Rmax, s.alpha_jump);
    case F_ZONISH_GYRO: return std::make_unique<ZoniShiftedGyroCoefficients>(s.Rmax, s.alpha_jump);
    }
    throw std::runtime_error("factory: bad profile");
}

template <class Base, class C, class S, class Z>
std::unique_ptr<Base> mk3(const ProblemSpec& s)
{
    switch (s.geom) {
    case G_CIRCULAR: return std::make_unique<C>(s.Rmax);
    case G_SHAFRANOV: return std::make_unique<S>(s.Rmax, s.p1, s.p2);
    case G_CZARNY: return std::make_unique<Z>(s.Rmax, s.p1, s.p2);
    }
    throw std::runtime_error("factory: geometry not available for this problem");
}
#define VF_SRC(PROB, PROF) \
    mk3<SourceTerm, PROB##_##PROF##_CircularGeometry, PROB##_##PROF##_ShafranovGeometry, PROB##_##PROF##_CzarnyGeometry>(s)
#define VF_SRC_PROB(PROB)                                 \
    switch (s.prof) {                                     \
    case F_POISSON: return VF_SRC(PROB, Poisson);         \
    case F_SONN: return VF_SRC(PROB, Sonnendrucker);      \
    case F_SONN_GYRO: return VF_SRC(PROB, SonnendruckerGyro); \
    case F_ZONI: return VF_SRC(PROB, Zoni);               \
    case F_ZONI_GYRO: return VF_SRC(PROB, ZoniGyro);      \
    case F_ZONISH: return VF_SRC(PROB, ZoniShifted);      \
    case F_ZONISH_GYRO: return VF_SRC(PROB, ZoniShiftedGyro); \
    }                                                     \
    break;

inline std::unique_ptr<SourceTerm> make_source(const ProblemSpec& s)
{
    if (s.geom == G_CULHAM) {
        if (s.prof != F_ZONISH_GYRO)
            throw std::runtime_error("factory: Culham only with ZoniShiftedGyro");
        if (s.prob == P_POLAR_R6)
            return std::make_unique<PolarR6_ZoniShiftedGyro_CulhamGeometry>(s.Rmax);
        if (s.prob == P_REFINED)
            return std::make_unique<Refined_ZoniShiftedGyro_CulhamGeometry>(s.Rmax);
        throw std::runtime_error("factory: Culham only with PolarR6/Refined");
    }
    switch (s.prob) {
    case P_CARTESIAN_R2: VF_SRC_PROB(CartesianR2)
    case P_CARTESIAN_R6: VF_SRC_PROB(CartesianR6)
    case P_POLAR_R6: VF_SRC_PROB(PolarR6)
    case P_REFINED:
        if (s.prof != F_ZONISH_GYRO)
            throw std::runtime_error("factory: Refined only with ZoniShiftedGyro");
        return VF_SRC(Refined, ZoniShiftedGyro);
    }
    throw std::runtime_error("factory: bad source term");
}
inline std::unique_ptr<ExactSolution> make_exact(const ProblemSpec& s)
{
    if (s.geom == G_CULHAM) {
        if (s.prob == P_POLAR_R6)
            return std::make_unique<PolarR6_CulhamGeometry>(s.Rmax);
        if (s.prob == P_REFINED)
            return std::make_unique<Refined_CulhamGeometry>(s.Rmax);
        throw std::runtime_error("factory: Culham only with PolarR6/Refined");
    }
    switch (s.prob) {
    case P_CARTESIAN_R2: return mk3<ExactSolution, CartesianR2_CircularGeometry, CartesianR2_ShafranovGeometry, CartesianR2_CzarnyGeometry>(s);
    case P_CARTESIAN_R6: return mk3<ExactSolution, CartesianR6_CircularGeometry, CartesianR6_ShafranovGeometry, CartesianR6_CzarnyGeometry>(s);
    case P_POLAR_R6: return mk3<ExactSolution, PolarR6_CircularGeometry, PolarR6_ShafranovGeometry, PolarR6_CzarnyGeometry>(s);
    case P_REFINED: return mk3<ExactSolution, Refined_CircularGeometry, Refined_ShafranovGeometry, Refined_CzarnyGeometry>(s);
    }
    throw std::runtime_error("factory: bad exact solution");
}
inline std::unique_ptr<BoundaryConditions> make_boundary(const ProblemSpec& s)
{
    if (s.geom == G_CULHAM) {
        if (s.prob == P_POLAR_R6)
            return std::make_unique<PolarR6_Boundary_CulhamGeometry>(s.Rmax);
        if (s.prob == P_REFINED)
            return std::make_unique<Refined_Boundary_CulhamGeometry>(s.Rmax);
        throw std::runtime_error("factory: Culham only with PolarR6/Refined");
    }
    switch (s.prob) {
    case P_CARTESIAN_R2:
        return mk3<BoundaryConditions, CartesianR2_Boundary_CircularGeometry, CartesianR2_Boundary_ShafranovGeometry,
                   CartesianR2_Boundary_CzarnyGeometry>(s);
    case P_CARTESIAN_R6:
        return mk3<BoundaryConditions, CartesianR6_Boundary_CircularGeometry, CartesianR6_Boundary_ShafranovGeometry,
                   CartesianR6_Boundary_CzarnyGeometry>(s);
    case P_POLAR_R6:
        return mk3<BoundaryConditions, PolarR6_Boundary_CircularGeometry, PolarR6_Boundary_ShafranovGeometry,
                   PolarR6_Boundary_CzarnyGeometry>(s);
    case P_REFINED:
        return mk3<BoundaryConditions, Refined_Boundary_CircularGeometry, Refined_Boundary_ShafranovGeometry,
                   Refined_Boundary_CzarnyGeometry>(s);
    }
    throw std::runtime_error("factory: bad boundary");
}

// Random geometry parameters inside the documented ranges.
inline void random_geom_params(Rng& rng, ProblemSpec& s, bool defaults = false)
{
    if (s.geom == G_SHAFRANOV) {
        s.p1 = defaults ? 0.3 : rng.uniform(0.0, 0.5);  // elongation kappa
        // the mapping is singular inside the domain when 2*delta >= 1 - kappa: stay clearly on the regular side
        s.p2 = defaults ? 0.2 : rng.uniform(0.0, std::min(0.3, 0.4 * (1.0 - s.p1)));  // Shafranov shift delta
    }
    else if (s.geom == G_CZARNY) {
        s.p1 = defaults ? 0.3 : rng.uniform(0.1, 0.5);  // inverse aspect ratio epsilon
        s.p2 = defaults ? 1.4 : rng.uniform(1.0, 2.0);  // ellipticity e
    }
    else {
        s.p1 = s.p2 = 0.0;
    }
}
