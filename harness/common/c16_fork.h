// C16 helper: run a piece of library code in a forked child and observe how it ends.
// The child streams doubles back through a pipe; its stderr is captured.  A library exit(), a signal, a sanitizer
// report or a hang (alarm) in the child is an observation for the parent instead of the end of the worker.
#pragma once
#include <cerrno>
#include <csignal>
#include <cstdio>
#include <cstdlib>
#include <cstring>
#include <exception>
#include <functional>
#include <poll.h>
#include <stdexcept>
#include <string>
#include <sys/prctl.h>
#include <sys/types.h>
#include <sys/wait.h>
#include <unistd.h>
#include <vector>

struct C16ChildSink {
    int fd;
    std::vector<double> buf;
    void put(double v)
    {
        buf.push_back(v);
        if (buf.size() >= 4096)
            flush();
    }
    void put(const double* p, size_t n)
    {
        for (size_t i = 0; i < n; i++)
            put(p[i]);
    }
    void flush()
    {
        const char* p = (const char*)buf.data();
        size_t left   = buf.size() * sizeof(double);
        while (left > 0) {
            ssize_t w = write(fd, p, left);
            if (w < 0) {
                if (errno == EINTR)
                    continue;
                _exit(98);
            }
            p += w;
            left -= (size_t)w;
        }
        buf.clear();
    }
};

struct C16ChildOutcome {
    bool exited   = false; // normal process end (exit/_exit)
    int exit_code = -1;
    int signal    = 0; // terminating signal, if any
    std::string err;   // captured stderr of the child
    std::vector<double> data;
    bool ok() const { return exited && exit_code == 0; }
};

enum { C16_EXIT_EXCEPTION = 97, C16_EXIT_PIPE = 98 };

inline C16ChildOutcome c16_run_in_child(const std::function<void(C16ChildSink&)>& body, unsigned alarm_seconds = 300)
{
    int pd[2], pe[2];
    if (pipe(pd) != 0 || pipe(pe) != 0)
        throw std::runtime_error("c16: pipe() failed");
    fflush(nullptr);
    pid_t pid = fork();
    if (pid < 0)
        throw std::runtime_error("c16: fork() failed");
    if (pid == 0) {
        // ---- child
        prctl(PR_SET_PDEATHSIG, SIGKILL);
        close(pd[0]);
        close(pe[0]);
        dup2(pe[1], 2);
        close(pe[1]);
        alarm(alarm_seconds);
        C16ChildSink sink{pd[1], {}};
        try {
            body(sink);
            sink.flush();
        }
        catch (const std::exception& e) {
            fprintf(stderr, "c16-child-exception: %s\n", e.what());
            fflush(stderr);
            _exit(C16_EXIT_EXCEPTION);
        }
        catch (...) {
            fprintf(stderr, "c16-child-exception: unknown\n");
            fflush(stderr);
            _exit(C16_EXIT_EXCEPTION);
        }
        _exit(0); // no atexit handlers / no second flush of the parent's stdio buffers
    }
    // ---- parent
    close(pd[1]);
    close(pe[1]);
    C16ChildOutcome out;
    std::string raw;
    struct pollfd fds[2] = {{pd[0], POLLIN, 0}, {pe[0], POLLIN, 0}};
    int open_fds         = 2;
    char buf[65536];
    while (open_fds > 0) {
        int r = poll(fds, 2, -1);
        if (r < 0) {
            if (errno == EINTR)
                continue;
            break;
        }
        for (int k = 0; k < 2; k++) {
            if (fds[k].fd < 0 || !(fds[k].revents & (POLLIN | POLLHUP | POLLERR)))
                continue;
            ssize_t got = read(fds[k].fd, buf, sizeof buf);
            if (got > 0) {
                if (k == 0)
                    raw.append(buf, (size_t)got);
                else if (out.err.size() < (1u << 20))
                    out.err.append(buf, (size_t)got);
            }
            else if (got == 0 || (got < 0 && errno != EINTR && errno != EAGAIN)) {
                close(fds[k].fd);
                fds[k].fd = -1;
                open_fds--;
            }
        }
    }
    int status = 0;
    while (waitpid(pid, &status, 0) < 0 && errno == EINTR) {
    }
    if (WIFEXITED(status)) {
        out.exited    = true;
        out.exit_code = WEXITSTATUS(status);
    }
    else if (WIFSIGNALED(status))
        out.signal = WTERMSIG(status);
    out.data.resize(raw.size() / sizeof(double));
    if (!out.data.empty())
        memcpy(out.data.data(), raw.data(), out.data.size() * sizeof(double));
    return out;
}

// The child ended in a way that is neither a normal return nor an explained library exit: make the worker end the
// same way (after replaying the child's stderr), so that the runner classifies and attributes it like any crash.
[[noreturn]] inline void c16_die_like_child(const C16ChildOutcome& o)
{
    fputs(o.err.c_str(), stderr);
    fflush(stderr);
    if (o.signal != 0) {
        fprintf(stderr, "c16: child terminated by signal %d\n", o.signal);
        fflush(stderr);
        signal(o.signal, SIG_DFL);
        raise(o.signal);
        abort();
    }
    fprintf(stderr, "c16: child exited with status %d\n", o.exit_code);
    fflush(stderr);
    _exit(o.exit_code != 0 ? o.exit_code : 99);
}
