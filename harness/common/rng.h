// Deterministic PRNG for the verification harness: one stream per (seed, property, case index).
#pragma once
#include <cstdint>
#include <cmath>
#include <string>
#include <vector>

struct Rng {
    uint64_t s[4];
    static uint64_t splitmix(uint64_t& x)
    {
        uint64_t z = (x += 0x9e3779b97f4a7c15ULL);
        z          = (z ^ (z >> 30)) * 0xbf58476d1ce4e5b9ULL;
        z          = (z ^ (z >> 27)) * 0x94d049bb133111ebULL;
        return z ^ (z >> 31);
    }
    static uint64_t hashstr(const std::string& str)
    {
        uint64_t h = 1469598103934665603ULL;
        for (unsigned char c : str) {
            h ^= c;
            h *= 1099511628211ULL;
        }
        return h;
    }
    Rng(uint64_t seed, const std::string& prop, uint64_t index)
    {
        uint64_t x = seed * 0x2545F4914F6CDD1DULL + hashstr(prop) * 0x9E3779B97F4A7C15ULL + index * 0xD1B54A32D192ED03ULL + 12345;
        for (auto& v : s)
            v = splitmix(x);
    }
    static inline uint64_t rotl(uint64_t x, int k) { return (x << k) | (x >> (64 - k)); }
    uint64_t next()
    {
        const uint64_t result = rotl(s[1] * 5, 7) * 9;
        const uint64_t t      = s[1] << 17;
        s[2] ^= s[0];
        s[3] ^= s[1];
        s[1] ^= s[2];
        s[0] ^= s[3];
        s[2] ^= t;
        s[3] = rotl(s[3], 45);
        return result;
    }
    // uniform in [0,1)
    double u01() { return (next() >> 11) * (1.0 / 9007199254740992.0); }
    double uniform(double a, double b) { return a + (b - a) * u01(); }
    // integer in [a,b] inclusive
    int range(int a, int b) { return a + (int)(next() % (uint64_t)(b - a + 1)); }
    bool coin(double p = 0.5) { return u01() < p; }
    double loguniform(double a, double b) { return std::exp(uniform(std::log(a), std::log(b))); }
    double sign() { return coin() ? 1.0 : -1.0; }
    template <class T>
    const T& pick(const std::vector<T>& v) { return v[next() % v.size()]; }
    template <class T>
    T pick(std::initializer_list<T> l)
    {
        std::vector<T> v(l);
        return v[next() % v.size()];
    }
    // standard normal
    double normal()
    {
        double u1 = u01(), u2 = u01();
        if (u1 < 1e-300)
            u1 = 1e-300;
        return std::sqrt(-2.0 * std::log(u1)) * std::cos(2.0 * M_PI * u2);
    }
};
