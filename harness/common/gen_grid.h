// Grid generators for the harness.
#pragma once
#include "../repo_include.h"
#include "obslog.h"
#include "rng.h"
#include <algorithm>
#include <cmath>
#include <optional>
#include <vector>

struct GridSpec {
    std::vector<double> radii;
    std::vector<double> angles; // ntheta+1 entries, angles[0]=0, angles.back()=2*pi
    std::optional<double> split; // explicit splitting radius, or automatic
    std::string radial_kind, angular_kind, split_kind;
    int nr() const { return (int)radii.size(); }
    int ntheta() const { return (int)angles.size() - 1; }
    PolarGrid make() const { return PolarGrid(radii, angles, split); }
    void describe(JObj& o, bool full = false) const
    {
        o.i("nr", nr()).i("ntheta", ntheta()).str("radial_kind", radial_kind).str("angular_kind", angular_kind).str("split_kind", split_kind);
        o.num("R0", radii.front()).num("Rmax", radii.back());
        if (split.has_value())
            o.num("split", *split);
        if (full || (nr() <= 12 && ntheta() <= 16)) {
            o.nums("radii", radii);
            o.nums("angles", angles);
        }
    }
};

// radii: nr strictly increasing values from R0 to Rmax
inline std::vector<double> gen_radii(Rng& rng, int nr, double R0, double Rmax, std::string& kind, int force_kind = -1)
{
    std::vector<double> r(nr);
    int k = force_kind >= 0 ? force_kind : rng.range(0, 3);
    if (k == 0) {
        kind = "uniform";
        for (int i = 0; i < nr; i++)
            r[i] = R0 + (Rmax - R0) * i / (nr - 1);
    }
    else if (k == 1) {
        kind     = "geometric";
        // spacing grows by constant factor q away from R0
        double q = rng.uniform(1.05, 1.6);
        std::vector<double> h(nr - 1);
        double s = 0, c = 1;
        for (int i = 0; i < nr - 1; i++) {
            h[i] = c;
            s += c;
            c *= q;
        }
        r[0] = R0;
        for (int i = 1; i < nr; i++)
            r[i] = r[i - 1] + (Rmax - R0) * h[i - 1] / s;
    }
    else if (k == 2) {
        kind = "random";
        std::vector<double> h(nr - 1);
        double s = 0;
        for (auto& v : h) {
            v = rng.uniform(0.2, 1.0);
            s += v;
        }
        r[0] = R0;
        for (int i = 1; i < nr; i++)
            r[i] = r[i - 1] + (Rmax - R0) * h[i - 1] / s;
    }
    else {
        kind = "random-wide";
        std::vector<double> h(nr - 1);
        double s = 0;
        for (auto& v : h) {
            v = rng.loguniform(0.02, 1.0);
            s += v;
        }
        r[0] = R0;
        for (int i = 1; i < nr; i++)
            r[i] = r[i - 1] + (Rmax - R0) * h[i - 1] / s;
    }
    r[0]      = R0;
    r[nr - 1] = Rmax;
    for (int i = 1; i < nr; i++)
        if (!(r[i] > r[i - 1])) { // degenerate rounding: fall back to uniform
            kind = "uniform";
            for (int j = 0; j < nr; j++)
                r[j] = R0 + (Rmax - R0) * j / (nr - 1);
            r[nr - 1] = Rmax;
            break;
        }
    return r;
}

// angles: ntheta even; antipodal partner enforced: draw ntheta/2 angles in [0,pi) (first is 0) and add pi.
inline std::vector<double> gen_angles(Rng& rng, int ntheta, std::string& kind, int force_kind = -1)
{
    std::vector<double> a(ntheta + 1);
    int k = force_kind >= 0 ? force_kind : rng.range(0, 2);
    int m = ntheta / 2;
    if (k == 0) {
        kind = "uniform";
        for (int j = 0; j < ntheta; j++)
            a[j] = 2 * M_PI * j / ntheta;
    }
    else {
        kind = k == 1 ? "random" : "random-wide";
        std::vector<double> h(m);
        double s = 0;
        for (auto& v : h) {
            v = k == 1 ? rng.uniform(0.3, 1.0) : rng.loguniform(0.05, 1.0);
            s += v;
        }
        a[0] = 0;
        for (int j = 1; j < m; j++)
            a[j] = a[j - 1] + M_PI * h[j - 1] / s;
        for (int j = 0; j < m; j++)
            a[m + j] = a[j] + M_PI;
    }
    a[0]      = 0.0;
    a[ntheta] = 2 * M_PI;
    return a;
}

inline double pick_R0(Rng& rng, double Rmax)
{
    switch (rng.range(0, 3)) {
    case 0: return 1e-5;
    case 1: return rng.loguniform(1e-8, 1e-3) * Rmax;
    case 2: return rng.loguniform(1e-3, 0.5) * Rmax;
    default: return rng.uniform(0.05, 0.5) * Rmax;
    }
}

// splitting: "auto", or explicit with ncirc circles (2 <= ncirc <= nr-3 unless allow_extreme)
inline void set_split(GridSpec& g, int ncirc)
{
    // radius strictly between radii[ncirc-1] and radii[ncirc] => lower_bound gives ncirc circles
    int nr = g.nr();
    if (ncirc <= 0) {
        g.split      = g.radii.front() * 0.5;
        g.split_kind = "all-radial";
    }
    else if (ncirc >= nr) {
        g.split      = g.radii.back() * 2.0;
        g.split_kind = "all-circular";
    }
    else {
        g.split      = 0.5 * (g.radii[ncirc - 1] + g.radii[ncirc]);
        g.split_kind = "explicit";
    }
}

// A generic admissible operator-level grid: nr>=4 (>=5 if need_coarsenable), ntheta even (multiple of 4 if smoothing).
struct GridOpts {
    int nr_min = 5, nr_max = 24, nth_min = 4, nth_max = 32;
    int nth_multiple = 2;  // 2, 4, 8
    bool odd_nr = false;   // coarsenable in r
    int min_circ = 2, min_radial = 3;
    double p_auto_split = 0.4;
    int radial_kind = -1, angular_kind = -1;
    double Rmax = 1.3;
    double R0 = -1; // <0: random
};

inline GridSpec gen_grid(Rng& rng, const GridOpts& o)
{
    GridSpec g;
    int nr = rng.range(o.nr_min, o.nr_max);
    if (o.odd_nr && nr % 2 == 0)
        nr += (nr < o.nr_max ? 1 : -1);
    int nth = rng.range(o.nth_min / o.nth_multiple, o.nth_max / o.nth_multiple) * o.nth_multiple;
    if (nth < o.nth_min)
        nth = ((o.nth_min + o.nth_multiple - 1) / o.nth_multiple) * o.nth_multiple;
    double R0 = o.R0 > 0 ? o.R0 : pick_R0(rng, o.Rmax);
    g.radii   = gen_radii(rng, nr, R0, o.Rmax, g.radial_kind, o.radial_kind);
    g.angles  = gen_angles(rng, nth, g.angular_kind, o.angular_kind);
    if (rng.coin(o.p_auto_split) || nr - o.min_radial < o.min_circ) {
        g.split      = std::nullopt;
        g.split_kind = "auto";
    }
    else {
        int ncirc = rng.range(o.min_circ, nr - o.min_radial);
        set_split(g, ncirc);
    }
    return g;
}

// Midpoint refinement of a grid spec (each fine node the midpoint of its coarse neighbours), as the library does.
inline GridSpec refine_midpoint(const GridSpec& c)
{
    GridSpec f;
    f.radial_kind  = c.radial_kind;
    f.angular_kind = c.angular_kind;
    f.split_kind   = "auto";
    f.radii.resize(2 * c.nr() - 1);
    for (int i = 0; i < c.nr(); i++)
        f.radii[2 * i] = c.radii[i];
    for (int i = 0; i + 1 < c.nr(); i++)
        f.radii[2 * i + 1] = 0.5 * (c.radii[i] + c.radii[i + 1]);
    f.angles.resize(2 * c.ntheta() + 1);
    for (int j = 0; j <= c.ntheta(); j++)
        f.angles[2 * j] = c.angles[j];
    for (int j = 0; j < c.ntheta(); j++)
        f.angles[2 * j + 1] = 0.5 * (c.angles[j] + c.angles[j + 1]);
    return f;
}
// Arbitrary refinement: fine nodes anywhere strictly between coarse neighbours (antipodal symmetry kept).
inline GridSpec refine_arbitrary(Rng& rng, const GridSpec& c)
{
    GridSpec f     = refine_midpoint(c);
    f.radial_kind  = c.radial_kind + "+arb";
    f.angular_kind = c.angular_kind + "+arb";
    for (int i = 0; i + 1 < c.nr(); i++) {
        double t           = rng.uniform(0.15, 0.85);
        f.radii[2 * i + 1] = c.radii[i] + t * (c.radii[i + 1] - c.radii[i]);
    }
    int m = c.ntheta() / 2; // coarse half count; keep partner structure: same t for j and j+m
    for (int j = 0; j < m; j++) {
        double t              = rng.uniform(0.15, 0.85);
        double d              = t * (c.angles[j + 1] - c.angles[j]);
        f.angles[2 * j + 1]       = c.angles[j] + d;
        f.angles[2 * (j + m) + 1] = c.angles[j] + d + M_PI;
    }
    return f;
}

inline Vector<double> random_vector(Rng& rng, int n, int kind)
{
    Vector<double> v(n);
    for (int i = 0; i < n; i++) {
        switch (kind) {
        case 0: v[i] = rng.uniform(-1, 1); break;
        case 1: v[i] = rng.sign() * std::pow(10.0, rng.uniform(-6, 6)); break;
        case 2: v[i] = 0.0; break;
        default: v[i] = rng.uniform(-100, 100); break;
        }
    }
    if (kind == 2) { // a few spikes
        int k = 1 + (int)(rng.next() % 3);
        for (int j = 0; j < k; j++)
            v[rng.range(0, n - 1)] = rng.sign() * rng.uniform(0.5, 2.0);
    }
    return v;
}
inline const char* vec_kind_name(int k)
{
    static const char* n[] = {"uniform", "wide", "spikes", "u100"};
    return n[k];
}
