// C15 helpers: per-class adapters (how to construct / read / mutate / solve an object of each linear-algebra class through
// its public interface) and the plain model that accompanies every object.  Measurement only.
#pragma once
#include "dense.h"
#include "rng.h"
#include "LinearAlgebra/vector.h"
#include "LinearAlgebra/coo_matrix.h"
#include "LinearAlgebra/csr_matrix.h"
#include "LinearAlgebra/sparseLUSolver.h"
#include "LinearAlgebra/symmetricTridiagonalSolver.h"
#include "LinearAlgebra/diagonalSolver.h"
#include <cstring>
#include <string>
#include <tuple>
#include <vector>

namespace c15
{

// Everything that can be read from an object through its public const interface, in a fixed order.
struct Snap {
    std::vector<long long> ints;
    std::vector<double> vals;
    bool same(const Snap& o) const
    {
        if (ints != o.ints || vals.size() != o.vals.size())
            return false;
        return vals.empty() || std::memcmp(vals.data(), o.vals.data(), vals.size() * sizeof(double)) == 0; // bitwise: NaN, -0
    }
};

enum St
{
    ST_DEFAULT,       // default-constructed (empty)
    ST_FRESH,         // constructed with a size, entries never set
    ST_FILLED,        // entries set
    ST_FACTORISED,    // solver that holds a factorisation (tridiagonal after its first solve, LU after construction)
    ST_MOVED,         // moved-from: only assigned to, copied from, destroyed
    ST_COPY_OF_MOVED, // copy of a moved-from object: unspecified value, treated like a moved-from object
    ST_BROKEN         // an assignment onto it threw: only destroyed
};

struct Model {
    St st            = ST_DEFAULT;
    bool was_fact    = false; // moved-from object that was factorised before
    Snap exp;                 // expected readable elements (plain copy), meaningful for DEFAULT/FRESH/FILLED/FACTORISED
    int n            = 0;     // primary size (vector length / nnz / matrix dimension)
    int mid          = -1;    // identity of the matrix held by a solver (same mid => same system)
    std::vector<ld> A;        // dense copy of the matrix held by a solver (n x n)
    bool cyclic      = false; // tridiagonal flavour of this object
    std::string prov = "constructed"; // which operation gave the object its current value
};

inline bool readable(St s) { return s == ST_DEFAULT || s == ST_FRESH || s == ST_FILLED || s == ST_FACTORISED; }
inline bool empty_state(St s) { return s == ST_DEFAULT || s == ST_MOVED || s == ST_COPY_OF_MOVED; }
inline std::string st_name(const Model& m)
{
    switch (m.st) {
    case ST_DEFAULT: return "default";
    case ST_FRESH: return "fresh";
    case ST_FILLED: return "filled";
    case ST_FACTORISED: return "factorised";
    case ST_MOVED: return m.was_fact ? "moved-from-factorised" : "moved-from";
    case ST_COPY_OF_MOVED: return "copy-of-moved-from";
    default: return "broken";
    }
}

inline double rand_value(Rng& r)
{
    if (r.coin(0.06)) {
        switch (r.range(0, 6)) {
        case 0: return 0.0;
        case 1: return -0.0;
        case 2: return 1e300;
        case 3: return -4.9e-310; // subnormal
        case 4: return std::numeric_limits<double>::quiet_NaN();
        case 5: return std::numeric_limits<double>::infinity();
        default: return 1.0;
        }
    }
    return r.uniform(-10.0, 10.0);
}

// ------------------------------------------------------------------------------------------------ Vector
struct VectorAD {
    typedef Vector<double> Obj;
    static constexpr bool is_solver = false;
    static constexpr bool has_set   = true;
    static std::string cls(const Model&) { return "Vector"; }
    static Obj* make_default() { return new Obj(); }
    static Snap snap(const Obj& o)
    {
        Snap s;
        int n = o.size();
        s.ints = {n, (long long)(o.end() - o.begin())};
        for (int i = 0; i < n; i++)
            s.vals.push_back(o[i]);
        return s;
    }
    static Obj* make_sized(Rng& r, Model& m, bool fill, bool)
    {
        int variant = r.range(0, 9);
        Obj* o;
        if (variant <= 5) {
            int n = r.coin(0.03) ? r.range(10001, 10400) : r.range(0, 16); // >10000 takes the `omp parallel for if` branch
            o     = new Obj(n);
            m.st  = ST_FRESH;
            m.n   = n;
            m.exp = snap(*o); // baseline of a freshly constructed object is taken as is
            if (fill && n > 0)
                set(r, *o, m, true);
        }
        else if (variant <= 7) {
            int n = r.range(1, 16);
            std::vector<double> v(n);
            for (auto& x : v)
                x = rand_value(r);
            o          = new Obj(v);
            m.st       = ST_FILLED;
            m.n        = n;
            m.exp.ints = {n, n};
            m.exp.vals = v;
        }
        else {
            double a = rand_value(r), b = rand_value(r), c = rand_value(r);
            o          = new Obj({a, b, c});
            m.st       = ST_FILLED;
            m.n        = 3;
            m.exp.ints = {3, 3};
            m.exp.vals = {a, b, c};
        }
        return o;
    }
    static bool can_set(const Model& m) { return (m.st == ST_FRESH || m.st == ST_FILLED) && m.n > 0; }
    static void set(Rng& r, Obj& o, Model& m, bool all = false)
    {
        int n = m.n;
        if (all || r.coin(0.5)) {
            for (int i = 0; i < n; i++) {
                double v      = rand_value(r);
                o[i]          = v;
                m.exp.vals[i] = v;
            }
        }
        else {
            int k = r.range(1, 2);
            for (int j = 0; j < k; j++) {
                int i         = r.range(0, n - 1);
                double v      = rand_value(r);
                *(o.begin() + i) = v; // through the iterator interface
                m.exp.vals[i] = v;
            }
        }
        m.st = ST_FILLED;
    }
    static bool solvable(const Model&) { return false; }
    static void rebuild_dense(Model&) {}
    static void solve(Rng&, Obj&, std::vector<double>&) {}
    static int npoke(const Obj& o) { return o.size(); }
    static double& pref(Obj& o, int k) { return o[k]; }
};

// ------------------------------------------------------------------------------------------------ COO
struct CooAD {
    typedef SparseMatrixCOO<double> Obj;
    static constexpr bool is_solver = false;
    static constexpr bool has_set   = true;
    static std::string cls(const Model&) { return "SparseMatrixCOO"; }
    static Obj* make_default() { return new Obj(); }
    static Snap snap(const Obj& o)
    {
        Snap s;
        int nnz = o.non_zero_size();
        s.ints  = {o.rows(), o.columns(), nnz, o.is_symmetric() ? 1 : 0};
        for (int i = 0; i < nnz; i++)
            s.ints.push_back(o.row_index(i));
        for (int i = 0; i < nnz; i++)
            s.ints.push_back(o.col_index(i));
        for (int i = 0; i < nnz; i++)
            s.vals.push_back(o.value(i));
        return s;
    }
    static Obj* make_sized(Rng& r, Model& m, bool fill, bool)
    {
        int rows = r.range(0, 6), cols = r.range(0, 6);
        int nnz = (rows * cols == 0) ? 0 : r.range(0, std::min(rows * cols, 14));
        Obj* o;
        if (r.coin(0.5) || nnz == 0) {
            o     = new Obj(rows, cols, nnz);
            m.st  = ST_FRESH;
            m.n   = nnz;
            m.exp = snap(*o);
            if (fill && nnz > 0)
                set(r, *o, m, true);
        }
        else {
            std::vector<std::tuple<int, int, double>> e(nnz);
            m.exp.ints = {rows, cols, nnz, 0};
            m.exp.ints.resize(4 + 2 * nnz);
            m.exp.vals.resize(nnz);
            for (int i = 0; i < nnz; i++) {
                int a = r.range(0, rows - 1), b = r.range(0, cols - 1);
                double v              = rand_value(r);
                e[i]                  = std::make_tuple(a, b, v);
                m.exp.ints[4 + i]     = a;
                m.exp.ints[4 + nnz + i] = b;
                m.exp.vals[i]         = v;
            }
            o    = new Obj(rows, cols, e);
            m.st = ST_FILLED;
            m.n  = nnz;
        }
        return o;
    }
    static bool can_set(const Model& m) { return m.st == ST_FRESH || m.st == ST_FILLED; }
    static void set(Rng& r, Obj& o, Model& m, bool all = false)
    {
        int nnz = m.n, rows = (int)m.exp.ints[0], cols = (int)m.exp.ints[1];
        if (r.coin(0.4) || nnz == 0) {
            bool s = !(m.exp.ints[3] != 0);
            o.is_symmetric(s);
            m.exp.ints[3] = s ? 1 : 0;
        }
        if (nnz > 0) {
            bool every = all || r.coin(0.5);
            int k      = every ? nnz : r.range(1, 2);
            for (int j = 0; j < k; j++) {
                int i = every ? j : r.range(0, nnz - 1);
                int a = r.range(0, rows - 1), b = r.range(0, cols - 1);
                double v = rand_value(r);
                if (r.coin()) {
                    o.row_index(i) = a;
                    o.col_index(i) = b;
                    o.value(i)     = v;
                }
                else { // through the raw-pointer interface
                    o.row_indices_data()[i]    = a;
                    o.column_indices_data()[i] = b;
                    o.values_data()[i]         = v;
                }
                m.exp.ints[4 + i]       = a;
                m.exp.ints[4 + nnz + i] = b;
                m.exp.vals[i]           = v;
            }
        }
        m.st = ST_FILLED;
    }
    static bool solvable(const Model&) { return false; }
    static void rebuild_dense(Model&) {}
    static void solve(Rng&, Obj&, std::vector<double>&) {}
    static int npoke(const Obj& o) { return o.non_zero_size(); }
    static double& pref(Obj& o, int k) { return o.value(k); }
};

// ------------------------------------------------------------------------------------------------ CSR
struct CsrAD {
    typedef SparseMatrixCSR<double> Obj;
    static constexpr bool is_solver = false;
    static constexpr bool has_set   = true;
    static std::string cls(const Model&) { return "SparseMatrixCSR"; }
    static Obj* make_default() { return new Obj(); }
    static Snap snap(const Obj& o)
    {
        Snap s;
        int rows = o.rows();
        s.ints   = {rows, o.columns(), o.non_zero_size()};
        for (int i = 0; i < rows; i++)
            s.ints.push_back(o.row_nz_size(i));
        for (int i = 0; i < rows; i++)
            for (int k = 0; k < o.row_nz_size(i); k++) {
                s.ints.push_back(o.row_nz_index(i, k));
                s.vals.push_back(o.row_nz_entry(i, k));
            }
        return s;
    }
    static Obj* make_sized(Rng& r, Model& m, bool fill, bool)
    {
        int rows = r.range(0, 6), cols = r.range(1, 6);
        std::vector<int> cnt(rows);
        int nnz = 0;
        for (auto& x : cnt) {
            x = r.range(0, std::min(cols, 4));
            nnz += x;
        }
        int variant = r.range(0, 2);
        Obj* o;
        if (variant == 0) {
            o     = new Obj(rows, cols, [&](int i) { return cnt[i]; });
            m.st  = ST_FRESH;
            m.n   = nnz;
            m.exp = snap(*o);
            if (fill && nnz > 0)
                set(r, *o, m, true);
            return o;
        }
        std::vector<std::tuple<int, int, double>> e;
        std::vector<double> vals;
        std::vector<int> ci, rs(rows + 1, 0);
        m.exp.ints = {rows, cols, nnz};
        for (int i = 0; i < rows; i++)
            m.exp.ints.push_back(cnt[i]);
        for (int i = 0; i < rows; i++) {
            for (int k = 0; k < cnt[i]; k++) {
                int b    = r.range(0, cols - 1);
                double v = rand_value(r);
                e.emplace_back(i, b, v);
                vals.push_back(v);
                ci.push_back(b);
                m.exp.ints.push_back(b);
                m.exp.vals.push_back(v);
            }
            rs[i + 1] = (int)vals.size();
        }
        if (variant == 1)
            o = new Obj(rows, cols, e);
        else
            o = new Obj(rows, cols, vals, ci, rs);
        m.st = ST_FILLED;
        m.n  = nnz;
        return o;
    }
    static bool can_set(const Model& m) { return (m.st == ST_FRESH || m.st == ST_FILLED) && m.n > 0; }
    static void set(Rng& r, Obj& o, Model& m, bool all = false)
    {
        int rows = (int)m.exp.ints[0], cols = (int)m.exp.ints[1], nnz = m.n;
        bool every = all || r.coin(0.5);
        // flat position p -> (row, k)
        std::vector<std::pair<int, int>> pos;
        for (int i = 0; i < rows; i++)
            for (int k = 0; k < (int)m.exp.ints[3 + i]; k++)
                pos.emplace_back(i, k);
        int cnt = every ? nnz : r.range(1, 2);
        for (int j = 0; j < cnt; j++) {
            int p    = every ? j : r.range(0, nnz - 1);
            int b    = r.range(0, cols - 1);
            double v = rand_value(r);
            if (r.coin()) {
                o.row_nz_index(pos[p].first, pos[p].second) = b;
                o.row_nz_entry(pos[p].first, pos[p].second) = v;
            }
            else {
                o.column_indices_data()[p] = b;
                o.values_data()[p]         = v;
            }
            m.exp.ints[3 + rows + p] = b;
            m.exp.vals[p]            = v;
        }
        m.st = ST_FILLED;
    }
    static bool solvable(const Model&) { return false; }
    static void rebuild_dense(Model&) {}
    static void solve(Rng&, Obj&, std::vector<double>&) {}
    static int npoke(const Obj& o) { return o.non_zero_size(); }
    static double& pref(Obj& o, int k) { return o.values_data()[k]; }
};

// ------------------------------------------------------------------------------------------------ DiagonalSolver
struct DiagAD {
    typedef DiagonalSolver<double> Obj;
    static constexpr bool is_solver = true;
    static constexpr bool has_set   = true;
    static std::string cls(const Model&) { return "DiagonalSolver"; }
    static Obj* make_default() { return new Obj(); }
    static Snap snap(const Obj& o)
    {
        Snap s;
        int n  = o.rows();
        s.ints = {n, o.columns()};
        for (int i = 0; i < n; i++)
            s.vals.push_back(o.diagonal(i));
        return s;
    }
    static Obj* make_sized(Rng& r, Model& m, bool fill, bool)
    {
        int n  = r.range(1, 12);
        Obj* o = new Obj(n);
        m.st   = ST_FRESH;
        m.n    = n;
        m.exp  = snap(*o);
        if (fill)
            set(r, *o, m, true);
        return o;
    }
    static bool can_set(const Model& m) { return m.st == ST_FRESH || m.st == ST_FILLED; }
    static void set(Rng& r, Obj& o, Model& m, bool all = false)
    {
        int n = m.n;
        if (all || m.st == ST_FRESH || r.coin(0.5)) {
            double scale = r.loguniform(1e-3, 1e3);
            for (int i = 0; i < n; i++) {
                double v      = scale * r.uniform(0.5, 2.0) * r.sign();
                o.diagonal(i) = v;
                m.exp.vals[i] = v;
            }
        }
        else {
            int i         = r.range(0, n - 1);
            double v      = m.exp.vals[i] * r.uniform(1.1, 3.0);
            o.diagonal(i) = v;
            m.exp.vals[i] = v;
        }
        m.st = ST_FILLED;
    }
    static bool solvable(const Model& m) { return m.n >= 1; }
    static void rebuild_dense(Model& m)
    {
        int n = m.n;
        m.A.assign((size_t)n * n, 0);
        for (int i = 0; i < n; i++)
            m.A[(size_t)i * n + i] = m.exp.vals[i];
    }
    static void solve(Rng&, Obj& o, std::vector<double>& x) { o.solveInPlace(x.data()); }
    static int npoke(const Obj& o) { return o.rows(); }
    static double& pref(Obj& o, int k) { return o.diagonal(k); }
};

// ------------------------------------------------------------------------------------------------ SymmetricTridiagonalSolver
struct TriAD {
    typedef SymmetricTridiagonalSolver<double> Obj;
    static constexpr bool is_solver = true;
    static constexpr bool has_set   = true;
    static std::string cls(const Model& m)
    {
        if (empty_state(m.st) || m.st == ST_BROKEN)
            return "SymmetricTridiagonalSolver";
        return m.cyclic ? "SymmetricTridiagonalSolver-cyclic" : "SymmetricTridiagonalSolver-noncyclic";
    }
    static Obj* make_default() { return new Obj(); }
    static Snap snap(const Obj& o)
    {
        Snap s;
        int n    = o.rows();
        bool cyc = o.is_cyclic();
        s.ints   = {n, o.columns(), cyc ? 1 : 0};
        for (int i = 0; i < n; i++)
            s.vals.push_back(o.main_diagonal(i));
        for (int i = 0; i < n - 1; i++)
            s.vals.push_back(o.sub_diagonal(i));
        if (cyc)
            s.vals.push_back(o.cyclic_corner_element());
        return s;
    }
    static Obj* make_sized(Rng& r, Model& m, bool fill, bool want_cyclic)
    {
        int n    = r.coin(0.04) ? 1 : r.range(want_cyclic ? 3 : 2, 12);
        Obj* o   = new Obj(n);
        m.st     = ST_FRESH;
        m.n      = n;
        m.exp    = snap(*o);
        m.cyclic = m.exp.ints[2] != 0;
        if (fill)
            set(r, *o, m, true, want_cyclic ? 1 : 0);
        return o;
    }
    static bool can_set(const Model& m) { return m.st == ST_FRESH || m.st == ST_FILLED; } // never after a factorisation
    // flavour: -1 keep / random, 0 non-cyclic, 1 cyclic
    static void set(Rng& r, Obj& o, Model& m, bool all = false, int flavour = -1)
    {
        int n = m.n;
        if (all || m.st == ST_FRESH || r.coin(0.6)) {
            bool cyc = flavour >= 0 ? flavour == 1 : (r.coin(0.85) ? m.cyclic : !m.cyclic);
            if (n < 3)
                cyc = (n == 1) ? m.cyclic : false; // n = 2: corner and sub-diagonal would coincide; n = 1 is never solved
            o.is_cyclic(cyc);
            std::vector<double> sub(std::max(0, n - 1)), mainv(n);
            double scale  = r.loguniform(1e-2, 1e2);
            double corner = 0;
            for (auto& s : sub)
                s = r.coin(0.1) ? 0.0 : scale * r.uniform(-1.0, 1.0);
            if (cyc)
                corner = scale * r.uniform(-1.0, 1.0);
            for (int i = 0; i < n; i++) {
                double off = (i > 0 ? std::fabs(sub[i - 1]) : 0.0) + (i < n - 1 ? std::fabs(sub[i]) : 0.0);
                if (cyc && (i == 0 || i == n - 1))
                    off += std::fabs(corner);
                mainv[i] = off * r.uniform(1.5, 3.0) + scale * r.uniform(0.5, 1.0);
            }
            m.exp.ints = {n, n, cyc ? 1 : 0};
            m.exp.vals.clear();
            for (int i = 0; i < n; i++) {
                o.main_diagonal(i) = mainv[i];
                m.exp.vals.push_back(mainv[i]);
            }
            for (int i = 0; i < n - 1; i++) {
                o.sub_diagonal(i) = sub[i];
                m.exp.vals.push_back(sub[i]);
            }
            if (cyc) {
                o.cyclic_corner_element() = corner;
                m.exp.vals.push_back(corner);
            }
            m.cyclic = cyc;
        }
        else if (n >= 2 && r.coin(0.5)) { // drop one coupling: keeps diagonal dominance
            int i                 = r.range(0, n - 2);
            o.sub_diagonal(i)     = 0.0;
            m.exp.vals[n + i]     = 0.0;
        }
        else { // strengthen one diagonal entry
            int i              = r.range(0, n - 1);
            double v           = m.exp.vals[i] * r.uniform(1.1, 2.0);
            o.main_diagonal(i) = v;
            m.exp.vals[i]      = v;
        }
        m.st = ST_FILLED;
    }
    static bool solvable(const Model& m) { return m.cyclic ? m.n >= 3 : m.n >= 2; }
    // dense matrix from the *unfactorised* entries (called when the entries are set, never after a solve)
    static void rebuild_dense(Model& m)
    {
        int n = m.n;
        m.A.assign((size_t)n * n, 0);
        for (int i = 0; i < n; i++)
            m.A[(size_t)i * n + i] = m.exp.vals[i];
        for (int i = 0; i < n - 1; i++) {
            m.A[(size_t)i * n + i + 1] += m.exp.vals[n + i];
            m.A[(size_t)(i + 1) * n + i] += m.exp.vals[n + i];
        }
        if (m.cyclic && n >= 2) {
            m.A[(size_t)0 * n + n - 1] += m.exp.vals[2 * n - 1];
            m.A[(size_t)(n - 1) * n + 0] += m.exp.vals[2 * n - 1];
        }
    }
    static void solve(Rng&, Obj& o, std::vector<double>& x)
    {
        std::vector<double> t1(x.size(), 0.0), t2(x.size(), 0.0);
        o.solveInPlace(x.data(), t1.data(), t2.data());
    }
    static int npoke(const Obj& o) { return o.rows() > 0 ? 2 * o.rows() - 1 : 0; }
    static double& pref(Obj& o, int k) { return k < o.rows() ? o.main_diagonal(k) : o.sub_diagonal(k - o.rows()); }
};

// ------------------------------------------------------------------------------------------------ SparseLUSolver
struct LuAD {
    typedef SparseLUSolver<double> Obj;
    static constexpr bool is_solver = true;
    static constexpr bool has_set   = false;
    static std::string cls(const Model&) { return "SparseLUSolver"; }
    static Obj* make_default() { return new Obj(); }
    static Snap snap(const Obj&) { return Snap(); } // nothing is readable; solves are the only observation
    static Obj* make_sized(Rng& r, Model& m, bool, bool)
    {
        int n = r.range(1, 8);
        m.A.assign((size_t)n * n, 0);
        double scale = r.loguniform(1e-2, 1e2);
        std::vector<std::tuple<int, int, double>> e;
        for (int i = 0; i < n; i++) {
            std::vector<std::pair<int, double>> row;
            double off = 0;
            for (int j = 0; j < n; j++)
                if (j != i && r.coin(0.4)) {
                    double v = scale * r.uniform(-1.0, 1.0);
                    row.emplace_back(j, v);
                    off += std::fabs(v);
                }
            row.emplace_back(i, (off * r.uniform(1.5, 3.0) + scale * r.uniform(0.5, 1.0)) * r.sign());
            for (size_t k = row.size(); k > 1; k--) // shuffle the order inside the row
                std::swap(row[k - 1], row[r.range(0, (int)k - 1)]);
            for (auto& p : row) {
                e.emplace_back(i, p.first, p.second);
                m.A[(size_t)i * n + p.first] = p.second;
            }
        }
        SparseMatrixCSR<double> csr(n, n, e);
        Obj* o = new Obj(csr);
        m.st   = ST_FACTORISED;
        m.n    = n;
        m.exp  = Snap();
        return o;
    }
    static bool can_set(const Model&) { return false; }
    static void set(Rng&, Obj&, Model&, bool = false) {}
    static bool solvable(const Model& m) { return m.n >= 1; }
    static void rebuild_dense(Model&) {}
    static void solve(Rng& r, Obj& o, std::vector<double>& x)
    {
        if (r.coin()) {
            Vector<double> b((int)x.size());
            for (size_t i = 0; i < x.size(); i++)
                b[(int)i] = x[i];
            o.solveInPlace(b);
            for (size_t i = 0; i < x.size(); i++)
                x[i] = b[(int)i];
        }
        else
            o.solveInPlace(x.data());
    }
    static int npoke(const Obj&) { return 0; }
    static double& pref(Obj&, int)
    {
        static double dummy;
        return dummy;
    }
};

} // namespace c15
