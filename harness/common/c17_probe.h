// C17 helper: run a piece of library code in a forked child and MEASURE how the child ended.
// The library may end the process through a failed assert, a sanitizer report or an uncaught exception; executing
// the call in a child first lets the case go on (and keep its other measurements) when that happens.
// Nothing is decided here: the termination status is handed to the observation log.
#pragma once
#include <cerrno>
#include <csignal>
#include <cstdio>
#include <cstring>
#include <exception>
#include <regex>
#include <string>
#include <sys/types.h>
#include <sys/wait.h>
#include <unistd.h>

struct ProbeResult {
    bool survived = false;   // child ran the call to completion and left with status 0
    std::string how;         // "ok", "exception:<what>", "assert:<expr>", "asan:<kind>", "ubsan:<msg>", "SIGSEGV", "exit<N>"
    std::string text;        // what the child wrote to stderr (tail)
};

inline std::string c17_keyify(const std::string& s, size_t maxlen = 72)
{
    std::string o;
    bool dash = false;
    for (char ch : s) {
        bool keep = (ch >= 'A' && ch <= 'Z') || (ch >= 'a' && ch <= 'z') || (ch >= '0' && ch <= '9') || ch == '_' || ch == '.' || ch == ':' || ch == '=' || ch == '<' || ch == '>';
        if (keep) {
            o += ch;
            dash = false;
        }
        else if (!dash && !o.empty()) {
            o += '-';
            dash = true;
        }
    }
    while (!o.empty() && o.back() == '-')
        o.pop_back();
    if (o.size() > maxlen)
        o.resize(maxlen);
    return o;
}

inline std::string c17_classify(int status, const std::string& text)
{
    std::smatch m;
    static const std::regex re_exc("exception: ([^\\n]*)");
    static const std::regex re_asan("ERROR: AddressSanitizer: ([A-Za-z0-9_-]+)");
    static const std::regex re_ubsan("runtime error: ([^\\n]*)");
    static const std::regex re_assert("Assertion `([^']*)' failed");
    if (std::regex_search(text, m, re_assert))
        return "assert:" + c17_keyify(m[1].str());
    if (std::regex_search(text, m, re_asan))
        return "asan:" + c17_keyify(m[1].str());
    if (std::regex_search(text, m, re_ubsan))
        return "ubsan:" + c17_keyify(m[1].str());
    if (std::regex_search(text, m, re_exc))
        return "exception:" + c17_keyify(m[1].str());
    if (WIFSIGNALED(status)) {
        int s = WTERMSIG(status);
        switch (s) {
        case SIGSEGV: return "SIGSEGV";
        case SIGABRT: return "SIGABRT";
        case SIGBUS: return "SIGBUS";
        case SIGFPE: return "SIGFPE";
        case SIGILL: return "SIGILL";
        case SIGKILL: return "SIGKILL";
        default: return "SIG" + std::to_string(s);
        }
    }
    if (WIFEXITED(status))
        return "exit" + std::to_string(WEXITSTATUS(status));
    return "unknown-status";
}

// Runs f() in a forked child. `flush_first` (may be null) is flushed before the fork so that no buffered output is
// duplicated.  The child never returns: it leaves with _exit (no atexit handlers, no leak check, no stdio flush).
template <class F>
inline ProbeResult probe_in_child(F&& f, FILE* flush_first = nullptr)
{
    ProbeResult r;
    if (flush_first)
        fflush(flush_first);
    fflush(stdout);
    fflush(stderr);
    int fd[2];
    if (pipe(fd) != 0) {
        r.how = std::string("harness:pipe-failed:") + strerror(errno);
        return r;
    }
    pid_t pid = fork();
    if (pid < 0) {
        close(fd[0]);
        close(fd[1]);
        r.how = std::string("harness:fork-failed:") + strerror(errno);
        return r;
    }
    if (pid == 0) {
        close(fd[0]);
        dup2(fd[1], 2);
        alarm(60); // a hang in the child ends as SIGALRM
        int code = 0;
        try {
            f();
        }
        catch (const std::exception& e) {
            std::string msg = std::string("exception: ") + e.what() + "\n";
            ssize_t w       = write(2, msg.data(), msg.size());
            (void)w;
            code = 42;
        }
        catch (...) {
            const char* msg = "exception: unknown\n";
            ssize_t w       = write(2, msg, strlen(msg));
            (void)w;
            code = 43;
        }
        _exit(code);
    }
    close(fd[1]);
    char buf[4096];
    for (;;) {
        ssize_t n = read(fd[0], buf, sizeof buf);
        if (n > 0) {
            if (r.text.size() < 16384)
                r.text.append(buf, (size_t)n);
        }
        else if (n == 0)
            break;
        else if (errno != EINTR)
            break;
    }
    close(fd[0]);
    int status = 0;
    while (waitpid(pid, &status, 0) < 0 && errno == EINTR) {
    }
    r.survived = WIFEXITED(status) && WEXITSTATUS(status) == 0;
    r.how      = r.survived ? "ok" : c17_classify(status, r.text);
    if (r.text.size() > 600)
        r.text = r.text.substr(0, 600);
    return r;
}
