// Fine/coarse level pairs for the transfer-operator monitors (C08, C09).
#pragma once
#include "kit.h"

struct LevelPair {
    ProblemSpec ps;
    std::unique_ptr<ProblemObjs> po;
    std::unique_ptr<Level> fine, coarse;
    std::vector<int> threads_per_level; // must outlive the Interpolation object (it keeps a reference)
    std::unique_ptr<Interpolation> interp;
    // coarse grid = every second node of the fine grid; both splits chosen by the caller
    void build(const GridSpec& fine_spec, std::optional<double> coarse_split, bool coarse_auto, int threads, bool dirbc, int coarse_threads = -1)
    {
        ps.geom = G_CIRCULAR;
        ps.prof = F_POISSON;
        ps.prob = P_CARTESIAN_R2;
        ps.Rmax = fine_spec.radii.back();
        po      = std::make_unique<ProblemObjs>(ps);
        auto fg = std::make_unique<PolarGrid>(fine_spec.make());
        std::vector<double> cr, ca;
        for (int i = 0; i < fine_spec.nr(); i += 2)
            cr.push_back(fine_spec.radii[i]);
        for (int j = 0; j <= fine_spec.ntheta(); j += 2)
            ca.push_back(fine_spec.angles[j]);
        auto cg  = coarse_auto ? std::make_unique<PolarGrid>(cr, ca) : std::make_unique<PolarGrid>(cr, ca, coarse_split);
        auto flc = std::make_unique<LevelCache>(*fg, *po->prof, *po->geo, true, true);
        fine     = std::make_unique<Level>(0, std::move(fg), std::move(flc), ExtrapolationType::NONE, true);
        auto clc = std::make_unique<LevelCache>(*fine, *cg);
        coarse   = std::make_unique<Level>(1, std::move(cg), std::move(clc), ExtrapolationType::NONE, true);
        threads_per_level = {threads, coarse_threads > 0 ? coarse_threads : threads}; // the solver reduces the team on coarser levels (threadReductionFactor)
        interp   = std::make_unique<Interpolation>(threads_per_level, dirbc);
    }
};

// angle difference a-b unwrapped into (-pi, pi]
inline long double unwrap_angle(long double d)
{
    const long double twopi = 2.0L * 3.14159265358979323846264338327950288L;
    while (d > twopi / 2)
        d -= twopi;
    while (d <= -twopi / 2)
        d += twopi;
    return d;
}
