// Reference discretisation: the documented finite-volume stencil of -div(alpha grad u) + beta u on the mapped
// polar grid, written row by row (gather form) in long double with coefficients taken directly from the
// DomainGeometry / DensityProfileCoefficients objects. Shares no code with src/Residual, src/DirectSolver, src/Smoother.
#pragma once
#include "../repo_include.h"
#include <cmath>
#include <utility>
#include <vector>

typedef long double ld;

struct RefOp {
    const PolarGrid& grid;
    bool dirbc;
    int nr, nt;
    std::vector<ld> arr, att, art, adet, beta_r, alpha_r; // indexed i*nt + j (own numbering)
    std::vector<ld> art_mag; // cancellation-free magnitude of art (for error scales)
    std::vector<double> r, th;
    bool is_dirichlet_row(int i) const { return i == nr - 1 || (i == 0 && dirbc); }
    int own(int i, int j) const { return i * nt + ((j % nt) + nt) % nt; }
    int lib(int i, int j) const { return grid.index(i, ((j % nt) + nt) % nt); }

    RefOp(const PolarGrid& g, const DomainGeometry& geo, const DensityProfileCoefficients& prof, bool DirBC_Interior)
        : grid(g), dirbc(DirBC_Interior), nr(g.nr()), nt(g.ntheta())
    {
        r.resize(nr);
        th.resize(nt + 1);
        for (int i = 0; i < nr; i++)
            r[i] = g.radius(i);
        for (int j = 0; j <= nt; j++)
            th[j] = g.theta(j);
        arr.resize(nr * nt);
        att.resize(nr * nt);
        art.resize(nr * nt);
        art_mag.resize(nr * nt);
        adet.resize(nr * nt);
        beta_r.resize(nr);
        alpha_r.resize(nr);
        for (int i = 0; i < nr; i++) {
            alpha_r[i] = prof.alpha(r[i]);
            beta_r[i]  = prof.beta(r[i]);
            for (int j = 0; j < nt; j++) {
                double s = std::sin(th[j]), c = std::cos(th[j]);
                ld Jrr = geo.dFx_dr(r[i], th[j], s, c), Jtr = geo.dFy_dr(r[i], th[j], s, c);
                ld Jrt = geo.dFx_dt(r[i], th[j], s, c), Jtt = geo.dFy_dt(r[i], th[j], s, c);
                ld det = Jrr * Jtt - Jrt * Jtr;
                ld ad  = fabsl(det);
                int k  = i * nt + j;
                adet[k] = ad;
                // 0.5 * alpha * |det| * DF^{-1} DF^{-T}:  [arr, art/2; art/2, att]
                arr[k] = 0.5L * alpha_r[i] * (Jtt * Jtt + Jrt * Jrt) / ad;
                att[k] = 0.5L * alpha_r[i] * (Jtr * Jtr + Jrr * Jrr) / ad;
                art[k] = alpha_r[i] * (-(Jtt * Jtr) - Jrt * Jrr) / ad;
                art_mag[k] = fabsl(alpha_r[i]) * (fabsl(Jtt * Jtr) + fabsl(Jrt * Jrr)) / ad;
            }
        }
    }
    ld k_before(int j) const
    { // theta_j - theta_{j-1}, periodic
        int jj = ((j % nt) + nt) % nt;
        return jj == 0 ? (ld)th[nt] - (ld)th[nt - 1] : (ld)th[jj] - (ld)th[jj - 1];
    }
    ld k_after(int j) const
    {
        int jj = ((j % nt) + nt) % nt;
        return (ld)th[jj + 1] - (ld)th[jj];
    }
    // volume factor of the row (multiplies f and beta*u)
    ld volume(int i, int j) const
    {
        ld h1 = i == 0 ? 2.0L * (ld)r[0] : (ld)r[i] - (ld)r[i - 1];
        ld h2 = (ld)r[i + 1] - (ld)r[i];
        return 0.25L * (h1 + h2) * (k_before(j) + k_after(j)) * adet[own(i, j)];
    }
    // stencil row of node (i,j): list of (library index, coefficient)
    // mag=true: entries are cancellation-free magnitudes |A_ij| (all non-negative), used only to scale errors
    void row(int i, int j, std::vector<std::pair<int, ld>>& e, bool mag = false) const
    {
        const std::vector<ld>& art = mag ? art_mag : this->art;
        const ld sgn = mag ? -1.0L : 1.0L; // flips the negative off-diagonal signs in magnitude mode
        e.clear();
        if (is_dirichlet_row(i)) {
            e.emplace_back(lib(i, j), 1.0L);
            return;
        }
        const bool across = (i == 0);
        ld h1 = across ? 2.0L * (ld)r[0] : (ld)r[i] - (ld)r[i - 1];
        ld h2 = (ld)r[i + 1] - (ld)r[i];
        ld k1 = k_before(j), k2 = k_after(j);
        int c = own(i, j);
        ld diag = 0.25L * (h1 + h2) * (k1 + k2) * beta_r[i] * adet[c];
        // inner radial neighbour: (i-1,j) or, across the origin, the antipodal node on the same circle
        int inner_own = across ? own(0, j + nt / 2) : own(i - 1, j);
        int inner_lib = across ? lib(0, j + nt / 2) : lib(i - 1, j);
        ld w;
        w = 0.5L * (k1 + k2) / h1 * (arr[c] + arr[inner_own]);
        diag += w;
        e.emplace_back(inner_lib, -sgn * w);
        w = 0.5L * (k1 + k2) / h2 * (arr[c] + arr[own(i + 1, j)]);
        diag += w;
        e.emplace_back(lib(i + 1, j), -sgn * w);
        w = 0.5L * (h1 + h2) / k1 * (att[c] + att[own(i, j - 1)]);
        diag += w;
        e.emplace_back(lib(i, j - 1), -sgn * w);
        w = 0.5L * (h1 + h2) / k2 * (att[c] + att[own(i, j + 1)]);
        diag += w;
        e.emplace_back(lib(i, j + 1), -sgn * w);
        e.emplace_back(lib(i, j), diag);
        // mixed derivative terms
        if (!across) {
            e.emplace_back(lib(i - 1, j - 1), -sgn * 0.25L * (art[own(i - 1, j)] + art[own(i, j - 1)]));
            e.emplace_back(lib(i - 1, j + 1), +0.25L * (art[own(i - 1, j)] + art[own(i, j + 1)]));
        }
        e.emplace_back(lib(i + 1, j - 1), +0.25L * (art[own(i + 1, j)] + art[own(i, j - 1)]));
        e.emplace_back(lib(i + 1, j + 1), -sgn * 0.25L * (art[own(i + 1, j)] + art[own(i, j + 1)]));
    }
    int n() const { return nr * nt; }
    // Ax and |A||x| indexed by library node index
    void apply(const Vector<double>& x, std::vector<ld>& Ax, std::vector<ld>* absAx = nullptr) const
    {
        Ax.assign(n(), 0.0L);
        if (absAx)
            absAx->assign(n(), 0.0L);
        std::vector<std::pair<int, ld>> e;
        for (int i = 0; i < nr; i++)
            for (int j = 0; j < nt; j++) {
                row(i, j, e);
                ld s = 0, a = 0;
                for (auto& p : e)
                    s += p.second * (ld)x[p.first];
                if (absAx) {
                    row(i, j, e, true);
                    for (auto& p : e)
                        a += fabsl(p.second) * fabsl((ld)x[p.first]);
                }
                int k = lib(i, j);
                Ax[k] = s;
                if (absAx)
                    (*absAx)[k] = a;
            }
    }
    // dense matrix (library numbering), row-major n x n; duplicates (tiny grids: same neighbour twice) are summed
    std::vector<ld> dense() const
    {
        int N = n();
        std::vector<ld> M((size_t)N * N, 0.0L);
        std::vector<std::pair<int, ld>> e;
        for (int i = 0; i < nr; i++)
            for (int j = 0; j < nt; j++) {
                row(i, j, e);
                int k = lib(i, j);
                for (auto& p : e)
                    M[(size_t)k * N + p.first] += p.second;
            }
        return M;
    }
    // discretised right-hand side from point values of f and boundary data
    void discretise_rhs(const SourceTerm& f, const BoundaryConditions& bc, std::vector<ld>& rhs) const
    {
        rhs.assign(n(), 0.0L);
        for (int i = 0; i < nr; i++)
            for (int j = 0; j < nt; j++) {
                double s = std::sin(th[j]), c = std::cos(th[j]);
                int k = lib(i, j);
                if (i == nr - 1)
                    rhs[k] = bc.u_D(r[i], th[j], s, c);
                else if (i == 0 && dirbc)
                    rhs[k] = bc.u_D_Interior(r[i], th[j], s, c);
                else
                    rhs[k] = (ld)f.rhs_f(r[i], th[j], s, c) * volume(i, j);
            }
    }
};
