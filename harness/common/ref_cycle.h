// Reference multigrid cycles: the textbook recursion over the PUBLIC operators of the levels built by setup(),
// with fresh buffers for every vector (no buffer rotation, no reuse of level scratch vectors).
//   V: one recursive call, W: two recursive W calls, F: one recursive F call followed by one recursive V call.
//   Implicit extrapolation acts on level 0 only (extrapolated smoother unless full-grid smoothing, extrapolated transfer,
//   coarse residual 4/3 R_ex(f - A u) - 1/3 (f_c - A_c Inject u)); below level 0 the plain cycle of the same type is used.
#pragma once
#include "../repo_include.h"
#include <vector>

struct RefCycle {
    std::vector<Level>& L;
    const Interpolation& I;
    int nlev, pre, post;
    bool full_grid_smoothing;
    RefCycle(std::vector<Level>& levels, const Interpolation& interp, int nlevels, int pre_steps, int post_steps, bool fgs)
        : L(levels), I(interp), nlev(nlevels), pre(pre_steps), post(post_steps), full_grid_smoothing(fgs)
    {
    }
    void smooth(int d, bool extrap, Vector<double>& u, const Vector<double>& rhs) const
    {
        Vector<double> tmp(u.size());
        assign(tmp, 0.0);
        if (extrap && d == 0 && !full_grid_smoothing)
            L[d].extrapolatedSmoothing(u, rhs, tmp);
        else
            L[d].smoothing(u, rhs, tmp);
    }
    // one cycle for A_d u = rhs, improving u in place
    void cycle(int type, bool extrap, int d, Vector<double>& u, const Vector<double>& rhs) const
    {
        Level& lv = L[d];
        Level& nx = L[d + 1];
        const int nf = lv.grid().numberOfNodes(), nc = nx.grid().numberOfNodes();
        for (int s = 0; s < pre; s++)
            smooth(d, extrap, u, rhs);
        Vector<double> r(nf);
        lv.computeResidual(r, rhs, u);
        Vector<double> rc(nc);
        if (extrap) {
            Vector<double> Rr(nc), uc(nc), rcc(nc);
            I.applyExtrapolatedRestriction(lv, nx, Rr, r);
            I.applyInjection(lv, nx, uc, u);
            nx.computeResidual(rcc, nx.rhs(), uc);
            for (int k = 0; k < nc; k++)
                rc[k] = (4.0 / 3.0) * Rr[k] + (-1.0 / 3.0) * rcc[k];
        }
        else
            I.applyRestriction(lv, nx, rc, r);
        Vector<double> e(nc);
        if (d + 1 == nlev - 1) {
            e = rc;
            nx.directSolveInPlace(e);
        }
        else {
            assign(e, 0.0);
            if (type == 0)
                cycle(0, false, d + 1, e, rc);
            else if (type == 1) {
                cycle(1, false, d + 1, e, rc);
                cycle(1, false, d + 1, e, rc);
            }
            else {
                cycle(2, false, d + 1, e, rc);
                cycle(0, false, d + 1, e, rc);
            }
        }
        Vector<double> Pe(nf);
        if (extrap)
            I.applyExtrapolatedProlongation(nx, lv, Pe, e);
        else
            I.applyProlongation(nx, lv, Pe, e);
        for (int k = 0; k < nf; k++)
            u[k] += Pe[k];
        for (int s = 0; s < post; s++)
            smooth(d, extrap, u, rhs);
    }
};
