// Observation log: one JSON object per line. Measurement only -- judgement happens in /verif/oracles.
#pragma once
#include <cmath>
#include <cstdio>
#include <map>
#include <sstream>
#include <string>
#include <vector>

inline std::string jesc(const std::string& s)
{
    std::string o;
    for (char c : s) {
        switch (c) {
        case '"': o += "\\\""; break;
        case '\\': o += "\\\\"; break;
        case '\n': o += "\\n"; break;
        case '\t': o += "\\t"; break;
        default:
            if ((unsigned char)c < 0x20) {
                char b[8];
                snprintf(b, sizeof b, "\\u%04x", c);
                o += b;
            }
            else
                o += c;
        }
    }
    return o;
}
inline std::string jnum(double v)
{
    if (std::isnan(v))
        return "NaN";
    if (std::isinf(v))
        return v > 0 ? "Infinity" : "-Infinity";
    char b[40];
    snprintf(b, sizeof b, "%.17g", v);
    return b;
}
inline std::string jnum(long double v) { return jnum((double)v); }

// A flat-ish JSON object builder (values are pre-rendered JSON strings).
struct JObj {
    std::vector<std::pair<std::string, std::string>> kv;
    JObj& raw(const std::string& k, const std::string& v)
    {
        for (auto& p : kv)
            if (p.first == k) {
                p.second = v;
                return *this;
            }
        kv.emplace_back(k, v);
        return *this;
    }
    JObj& num(const std::string& k, double v) { return raw(k, jnum(v)); }
    JObj& i(const std::string& k, long long v) { return raw(k, std::to_string(v)); }
    JObj& b(const std::string& k, bool v) { return raw(k, v ? "true" : "false"); }
    JObj& str(const std::string& k, const std::string& v) { return raw(k, "\"" + jesc(v) + "\""); }
    JObj& obj(const std::string& k, const JObj& o) { return raw(k, o.dump()); }
    JObj& nums(const std::string& k, const std::vector<double>& v)
    {
        std::string s = "[";
        for (size_t j = 0; j < v.size(); j++)
            s += (j ? "," : "") + jnum(v[j]);
        return raw(k, s + "]");
    }
    JObj& ints(const std::string& k, const std::vector<int>& v)
    {
        std::string s = "[";
        for (size_t j = 0; j < v.size(); j++)
            s += (j ? "," : "") + std::to_string(v[j]);
        return raw(k, s + "]");
    }
    std::string dump() const
    {
        std::string s = "{";
        bool first    = true;
        for (auto& p : kv) {
            if (!first)
                s += ",";
            first = false;
            s += "\"" + jesc(p.first) + "\":" + p.second;
        }
        return s + "}";
    }
};

// One observation = one case. "checks" maps a sub-check name to the worst measured (scaled) value;
// "keys" maps the sub-check name to the classification suffix of the witness that produced the worst value.
struct Obs {
    JObj top;       // case, sig, nontrivial, ...
    JObj params;    // generated inputs (for samples / replay reading)
    JObj info;      // extra measured quantities (not judged)
    std::map<std::string, double> checks;
    std::map<std::string, std::string> keys;
    std::map<std::string, long long> counts; // how many comparisons went into each check
    // record a measured value; keeps the maximum (NaN dominates)
    void check(const std::string& name, double value, const std::string& key = "")
    {
        counts[name]++;
        auto it = checks.find(name);
        bool worse = it == checks.end() || std::isnan(value) || (!std::isnan(it->second) && value > it->second);
        if (worse) {
            checks[name] = value;
            keys[name]   = key;
        }
    }
    // boolean check: value 0 (ok) or 1 (bad)
    void require(const std::string& name, bool ok, const std::string& key = "") { check(name, ok ? 0.0 : 1.0, key); }
    std::string dump() const
    {
        JObj o = top;
        o.obj("params", params);
        o.obj("info", info);
        JObj c, k, n;
        for (auto& p : checks)
            c.num(p.first, p.second);
        for (auto& p : keys)
            if (!p.second.empty())
                k.str(p.first, p.second);
        for (auto& p : counts)
            n.i(p.first, p.second);
        o.obj("checks", c);
        o.obj("keys", k);
        o.obj("counts", n);
        return o.dump();
    }
};
