// Independent recomputation of the solver's stop quantity from solution(), grid() and freshly built input functions.
#pragma once
#include "factory.h"
#include "ref_operator.h"
#include <cmath>

struct IndepResidual {
    const PolarGrid& grid;
    ProblemSpec ps;
    bool dirbc;
    int extrapolation;
    std::unique_ptr<DomainGeometry> geo;
    std::unique_ptr<DensityProfileCoefficients> prof;
    std::unique_ptr<SourceTerm> src;
    std::unique_ptr<BoundaryConditions> bc;
    std::unique_ptr<PolarGrid> coarse;
    std::unique_ptr<RefOp> A, Ac;
    std::vector<ld> f, fc;
    IndepResidual(const PolarGrid& g, const ProblemSpec& p, bool DirBC, int extrap)
        : grid(g), ps(p), dirbc(DirBC), extrapolation(extrap), geo(make_geometry(p)), prof(make_profile(p)), src(make_source(p)), bc(make_boundary(p))
    {
        A = std::make_unique<RefOp>(grid, *geo, *prof, dirbc);
        A->discretise_rhs(*src, *bc, f);
        if (extrapolation != 0) {
            std::vector<double> cr, ca;
            for (int i = 0; i < grid.nr(); i += 2)
                cr.push_back(grid.radius(i));
            for (int j = 0; j <= grid.ntheta(); j += 2)
                ca.push_back(grid.theta(j));
            coarse = std::make_unique<PolarGrid>(cr, ca);
            Ac     = std::make_unique<RefOp>(*coarse, *geo, *prof, dirbc);
            Ac->discretise_rhs(*src, *bc, fc);
        }
    }
    // the (extrapolated) residual vector of u, library node numbering
    std::vector<ld> residual(const Vector<double>& u) const
    {
        std::vector<ld> Au;
        A->apply(u, Au);
        std::vector<ld> r(Au.size());
        for (size_t k = 0; k < r.size(); k++)
            r[k] = f[k] - Au[k];
        if (extrapolation != 0) {
            Vector<double> uc(coarse->numberOfNodes());
            for (int ic = 0; ic < coarse->nr(); ic++)
                for (int jc = 0; jc < coarse->ntheta(); jc++)
                    uc[coarse->index(ic, jc)] = u[grid.index(2 * ic, 2 * jc)];
            std::vector<ld> Acuc;
            Ac->apply(uc, Acuc);
            for (int i = 0; i < grid.nr(); i++)
                for (int j = 0; j < grid.ntheta(); j++) {
                    int k = grid.index(i, j);
                    if (i % 2 == 0 && j % 2 == 0) {
                        int kc = coarse->index(i / 2, j / 2);
                        r[k]   = (4.0L * r[k] - (fc[kc] - Acuc[kc])) / 3.0L;
                    }
                    else
                        r[k] *= 4.0L / 3.0L;
                }
        }
        return r;
    }
    // norm type: 0 euclidean, 1 weighted euclidean, 2 infinity
    static ld norm(const std::vector<ld>& r, int type)
    {
        ld s = 0;
        if (type == 2) {
            for (auto v : r)
                s = std::max(s, fabsl(v));
            return s;
        }
        for (auto v : r)
            s += v * v;
        s = sqrtl(s);
        return type == 1 ? s / sqrtl((ld)r.size()) : s;
    }
};
