// Common main() for all drivers.
//   driver --seed S --tier quick|thorough --start A --count N --out FILE [--arg k=v ...]
// For each case index i in [A, A+N): writes {"begin":i} (flushed) before running and the observation after,
// so that a crash can be attributed to a case by the runner.
#pragma once
#include "obslog.h"
#include "rng.h"
#include <cstdlib>
#include <cstring>
#include <exception>
#include <functional>
#include <map>
#include <string>
#include <unistd.h>

struct CaseCtx {
    std::string prop;
    uint64_t seed;
    long long index;
    std::string tier;
    std::map<std::string, std::string> args;
    Rng rng;
    Obs obs;
    FILE* out = nullptr;
    // Call after generating the inputs and before executing code that may crash: the runner attributes a crash of
    // this process to this case and uses `cls` (a short classification of the input) in the violation key.
    void announce(const std::string& cls)
    {
        if (!out)
            return;
        JObj o;
        o.i("pre", index).str("class", cls).obj("params", obs.params);
        fprintf(out, "%s\n", o.dump().c_str());
        fflush(out);
    }
    CaseCtx(const std::string& p, uint64_t s, long long i, const std::string& t, const std::map<std::string, std::string>& a)
        : prop(p), seed(s), index(i), tier(t), args(a), rng(s, p, (uint64_t)i)
    {
    }
    bool thorough() const { return tier == "thorough"; }
    std::string arg(const std::string& k, const std::string& d = "") const
    {
        auto it = args.find(k);
        return it == args.end() ? d : it->second;
    }
};

inline int driver_main(int argc, char** argv, const char* prop, const std::function<void(CaseCtx&)>& run_case)
{
    uint64_t seed   = 1;
    long long start = 0, count = 1;
    std::string tier = "quick", out;
    std::map<std::string, std::string> args;
    for (int a = 1; a < argc; a++) {
        std::string k = argv[a];
        auto val      = [&]() -> std::string { return a + 1 < argc ? argv[++a] : ""; };
        if (k == "--seed")
            seed = strtoull(val().c_str(), nullptr, 10);
        else if (k == "--tier")
            tier = val();
        else if (k == "--start")
            start = atoll(val().c_str());
        else if (k == "--count")
            count = atoll(val().c_str());
        else if (k == "--out")
            out = val();
        else if (k == "--arg") {
            std::string kv = val();
            auto p         = kv.find('=');
            args[kv.substr(0, p)] = p == std::string::npos ? "1" : kv.substr(p + 1);
        }
    }
    FILE* f = out.empty() ? stdout : fopen(out.c_str(), "a");
    if (!f) {
        fprintf(stderr, "cannot open %s\n", out.c_str());
        return 2;
    }
    for (long long i = start; i < start + count; i++) {
        fprintf(f, "{\"begin\":%lld}\n", i);
        fflush(f);
        CaseCtx ctx(prop, seed, i, tier, args);
        ctx.obs.top.i("case", i);
        ctx.out = f;
        try {
            run_case(ctx);
        }
        catch (const std::exception& e) {
            // an exception escaping a case is an observation, judged by the oracle ("harness_exception")
            ctx.obs.top.str("exception", e.what());
        }
        fprintf(f, "%s\n", ctx.obs.dump().c_str());
        fflush(f);
    }
    if (f != stdout)
        fclose(f);
    return 0;
}
