// Builds Level objects the way the library's setup() does, from harness-chosen inputs.
#pragma once
#include "../repo_include.h"
#include "factory.h"
#include "gen_grid.h"
#include <memory>
#include <vector>

struct ProblemObjs {
    ProblemSpec spec;
    std::unique_ptr<DomainGeometry> geo;
    std::unique_ptr<DensityProfileCoefficients> prof;
    explicit ProblemObjs(const ProblemSpec& s) : spec(s), geo(make_geometry(s)), prof(make_profile(s)) {}
};

inline ProblemSpec random_problem(Rng& rng, double Rmax, bool allow_culham = true, bool defaults = false)
{
    ProblemSpec s;
    s.Rmax = Rmax;
    s.geom = rng.range(0, allow_culham ? 3 : 2);
    s.prof = rng.range(0, 6);
    s.prob = rng.range(0, 2);
    if (s.geom == G_CULHAM) {
        s.prof = F_ZONISH_GYRO;
        s.prob = P_POLAR_R6;
    }
    random_geom_params(rng, s, defaults);
    s.alpha_jump = rng.uniform(0.2, 0.9) * Rmax;
    return s;
}

// opt-in for operator-level drivers: in a share of the cases the geometry is the mirror image (det DF < 0)
inline void maybe_mirror(Rng& rng, ProblemSpec& s, double p = 0.15) { s.mirror = rng.coin(p); }

// hierarchy of levels built like GMGPolar::setup(): level 0 from a fresh cache, coarser ones from the finer level.
struct Hierarchy {
    std::vector<std::unique_ptr<Level>> levels;
    Hierarchy() = default;
    void build(const PolarGrid& finest, const ProblemObjs& p, bool cache_prof, bool cache_geo, int nlevels,
               ExtrapolationType ex = ExtrapolationType::NONE, bool fmg = true)
    {
        levels.clear();
        auto g  = std::make_unique<PolarGrid>(finest);
        auto lc = std::make_unique<LevelCache>(*g, *p.prof, *p.geo, cache_prof, cache_geo);
        levels.push_back(std::make_unique<Level>(0, std::move(g), std::move(lc), ex, fmg));
        for (int d = 1; d < nlevels; d++) {
            auto cg  = std::make_unique<PolarGrid>(coarseningGrid(levels[d - 1]->grid()));
            auto clc = std::make_unique<LevelCache>(*levels[d - 1], *cg);
            levels.push_back(std::make_unique<Level>(d, std::move(cg), std::move(clc), ex, fmg));
        }
    }
};

// how many levels can be coarsened (nr odd and ntheta even at each step, keeping nr>=min_nr, ntheta>=min_nt)
inline int max_coarsenings(int nr, int nt, int min_nr = 3, int min_nt = 4)
{
    int k = 0;
    while (nr % 2 == 1 && nt % 2 == 0 && (nr + 1) / 2 >= min_nr && nt / 2 >= min_nt && (nt / 2) % 2 == 0) {
        nr = (nr + 1) / 2;
        nt = nt / 2;
        k++;
    }
    return k;
}
