// Helpers of the C18 driver (p18_gridgen.cpp): friend accessor, "run the real code in a forked child" probe,
// crash classification, small file utilities.  Nothing here decides pass/fail.
#pragma once
#include "../repo_include.h"
#include <cxxabi.h>
#include <fcntl.h>
#include <fstream>
#include <signal.h>
#include <string>
#include <sys/stat.h>
#include <sys/types.h>
#include <sys/wait.h>
#include <typeinfo>
#include <unistd.h>
#include <vector>

// The class declares this struct a friend when GMGPOLAR_VERIF is defined (harness build only).
struct GMGPolarVerifAccess {
    static int levels(const GMGPolar& g) { return g.number_of_levels_; }
    static int stored_levels(const GMGPolar& g) { return (int)g.levels_.size(); }
    static const PolarGrid& level_grid(const GMGPolar& g, int d) { return g.levels_[d].grid(); }
    // the private level-count rule of setup(), for grids too large to run a whole setup() on
    static int choose(GMGPolar& g, const PolarGrid& grid) { return g.chooseNumberOfLevels(grid); }
};

namespace c18
{

inline std::string demangle(const char* n)
{
    int st     = 0;
    char* d    = abi::__cxa_demangle(n, nullptr, nullptr, &st);
    std::string s = (st == 0 && d) ? d : n;
    free(d);
    return s;
}

inline std::string squeeze(std::string s, size_t maxlen = 110)
{
    std::string o;
    bool sp = false;
    for (char ch : s) {
        if (ch == '\n' || ch == '\r' || ch == '\t' || ch == ' ') {
            sp = true;
            continue;
        }
        if (sp && !o.empty())
            o += ' ';
        sp = false;
        o += ch;
    }
    if (o.size() > maxlen)
        o.resize(maxlen);
    return o;
}

// Same classes as vlib/core.py CRASH_PATTERNS, from the text the dying child wrote to stderr.
inline std::string classify_death(int status, const std::string& err)
{
    auto between = [&](const std::string& a, const std::string& stop_chars) -> std::string {
        size_t p = err.find(a);
        if (p == std::string::npos)
            return "";
        p += a.size();
        size_t q = err.find_first_of(stop_chars, p);
        return err.substr(p, q == std::string::npos ? std::string::npos : q - p);
    };
    std::string s;
    if (!(s = between("ERROR: AddressSanitizer: ", " \n")).empty())
        return "asan:" + squeeze(s);
    if (err.find("ERROR: LeakSanitizer") != std::string::npos)
        return "lsan";
    if (err.find("runtime error: ") != std::string::npos) {
        s = between("runtime error: ", "\n");
        size_t q = s.find(" for type");
        if (q != std::string::npos)
            s = s.substr(0, q);
        // numbers vary from input to input: keep the message shape only
        std::string t;
        bool indigit = false;
        for (char ch : s) {
            if (isdigit((unsigned char)ch)) {
                if (!indigit)
                    t += '#';
                indigit = true;
            }
            else {
                indigit = false;
                t += ch;
            }
        }
        return "ubsan:" + squeeze(t);
    }
    {
        size_t p = err.find("Assertion `");
        if (p != std::string::npos) {
            p += 11;
            size_t q = err.find("' failed", p);
            if (q != std::string::npos)
                return "assert:" + squeeze(err.substr(p, q - p));
        }
    }
    if (!(s = between("terminate called after throwing an instance of '", "'")).empty())
        return "terminate:" + squeeze(s);
    if (WIFSIGNALED(status)) {
        int sg = WTERMSIG(status);
        switch (sg) {
        case SIGSEGV: return "SIGSEGV";
        case SIGABRT: return "SIGABRT";
        case SIGBUS: return "SIGBUS";
        case SIGFPE: return "SIGFPE";
        case SIGALRM: return "hang(SIGALRM)";
        case SIGKILL: return "SIGKILL";
        default: return "SIG" + std::to_string(sg);
        }
    }
    return "exit" + std::to_string(WIFEXITED(status) ? WEXITSTATUS(status) : -1);
}

struct ChildOutcome {
    enum Kind { OK = 0, STD_EXCEPTION = 1, OTHER_EXCEPTION = 2, CRASH = 3 } kind = OK;
    std::string type; // demangled exception type, or crash class
    std::string what; // exception text
    std::string tail; // last part of the child's stderr
    std::string all;  // everything the child wrote to stderr (capped at 1 MB)
    const char* kind_name() const
    {
        static const char* n[] = {"ok", "std-exception", "non-std-exception", "crash"};
        return n[kind];
    }
};

// Runs body() -- a call into the real library that may abort, trip a sanitizer, or throw -- in a forked child and
// reports how it ended.  The child only ever executes PolarGrid code (no OpenMP region), so forking is safe.
template <class F>
ChildOutcome run_in_child(F&& body, int timeout_s = 300)
{
    static const char* MARK = "@@C18-RESULT@@ ";
    ChildOutcome out;
    int fds[2];
    if (pipe(fds) != 0)
        throw std::runtime_error("c18: pipe() failed");
    fflush(stdout);
    fflush(stderr);
    pid_t pid = fork();
    if (pid < 0) {
        close(fds[0]);
        close(fds[1]);
        throw std::runtime_error("c18: fork() failed");
    }
    if (pid == 0) {
        close(fds[0]);
        dup2(fds[1], 2);
        close(fds[1]);
        int dn = open("/dev/null", O_WRONLY);
        if (dn >= 0)
            dup2(dn, 1);
        alarm(timeout_s);
        int code = 0;
        try {
            body();
        }
        catch (const std::exception& e) {
            std::string m = std::string("\n") + MARK + "E " + demangle(typeid(e).name()) + " | " + squeeze(e.what(), 200) + "\n";
            (void)!write(2, m.data(), m.size());
            code = 3;
        }
        catch (...) {
            std::string m = std::string("\n") + MARK + "X\n";
            (void)!write(2, m.data(), m.size());
            code = 4;
        }
        _exit(code);
    }
    close(fds[1]);
    std::string err;
    char buf[4096];
    for (;;) {
        ssize_t n = read(fds[0], buf, sizeof buf);
        if (n > 0) {
            err.append(buf, (size_t)n);
            if (err.size() > (1u << 20))
                err.erase(0, err.size() - (1u << 19));
        }
        else if (n == 0)
            break;
        else if (errno != EINTR)
            break;
    }
    close(fds[0]);
    int status = 0;
    while (waitpid(pid, &status, 0) < 0 && errno == EINTR) {
    }
    out.tail = err.size() > 1500 ? err.substr(err.size() - 1500) : err;
    out.all  = err;
    if (WIFEXITED(status) && WEXITSTATUS(status) == 0) {
        out.kind = ChildOutcome::OK;
        return out;
    }
    size_t p = err.rfind(MARK);
    if (WIFEXITED(status) && WEXITSTATUS(status) == 3 && p != std::string::npos) {
        std::string m = err.substr(p + strlen(MARK));
        size_t nl     = m.find('\n');
        if (nl != std::string::npos)
            m.resize(nl);
        // "E type | what"
        size_t bar = m.find(" | ");
        out.kind   = ChildOutcome::STD_EXCEPTION;
        out.type   = m.substr(2, bar == std::string::npos ? std::string::npos : bar - 2);
        out.what   = bar == std::string::npos ? "" : m.substr(bar + 3);
        return out;
    }
    if (WIFEXITED(status) && WEXITSTATUS(status) == 4 && p != std::string::npos) {
        out.kind = ChildOutcome::OTHER_EXCEPTION;
        out.type = "non-std";
        return out;
    }
    out.kind = ChildOutcome::CRASH;
    out.type = classify_death(status, err);
    return out;
}

// ---- data channel from the measuring child to the supervising process: tab-separated records on the child's stderr
static const char* const DATA_MARK = "@@C18-D@@";
inline void emit_record(const std::vector<std::string>& fields)
{
    std::string m = std::string("\n") + DATA_MARK;
    for (auto& f : fields) {
        m += '\t';
        for (char ch : f)
            m += (ch == '\n' || ch == '\t' || ch == '\r') ? ' ' : ch;
    }
    m += '\n';
    size_t off = 0;
    while (off < m.size()) {
        ssize_t n = write(2, m.data() + off, m.size() - off);
        if (n <= 0) {
            if (errno == EINTR)
                continue;
            break;
        }
        off += (size_t)n;
    }
}
inline std::vector<std::vector<std::string>> parse_records(const std::string& text)
{
    std::vector<std::vector<std::string>> out;
    size_t pos = 0, ml = strlen(DATA_MARK);
    while (pos <= text.size()) {
        size_t nl = text.find('\n', pos);
        std::string line = text.substr(pos, nl == std::string::npos ? std::string::npos : nl - pos);
        if (line.compare(0, ml, DATA_MARK) == 0 && line.size() > ml && line[ml] == '\t') {
            std::vector<std::string> f;
            size_t p = ml + 1;
            for (;;) {
                size_t t = line.find('\t', p);
                f.push_back(line.substr(p, t == std::string::npos ? std::string::npos : t - p));
                if (t == std::string::npos)
                    break;
                p = t + 1;
            }
            out.push_back(f);
        }
        if (nl == std::string::npos)
            break;
        pos = nl + 1;
    }
    return out;
}

// minimal JSON syntax check (records from a measuring child whose heap may be damaged are not trusted)
struct JsonCheck {
    const std::string& s;
    size_t p = 0;
    int depth = 0;
    explicit JsonCheck(const std::string& str) : s(str) {}
    void ws() { while (p < s.size() && (s[p] == ' ')) p++; }
    bool lit(const char* w) { size_t n = strlen(w); if (s.compare(p, n, w) == 0) { p += n; return true; } return false; }
    bool str()
    {
        if (p >= s.size() || s[p] != '"') return false;
        for (p++; p < s.size(); p++) {
            unsigned char ch = (unsigned char)s[p];
            if (ch == '\\') { p++; if (p >= s.size()) return false; continue; }
            if (ch == '"') { p++; return true; }
            if (ch < 0x20) return false;
        }
        return false;
    }
    bool num()
    {
        size_t q = p;
        if (p < s.size() && s[p] == '-') p++;
        if (lit("Infinity")) return true;
        while (p < s.size() && (isdigit((unsigned char)s[p]) || s[p] == '.' || s[p] == 'e' || s[p] == 'E' || s[p] == '+' || s[p] == '-')) p++;
        return p > q && isdigit((unsigned char)s[p - 1]);
    }
    bool val()
    {
        if (++depth > 20) return false;
        ws();
        bool ok = false;
        if (p >= s.size()) ok = false;
        else if (s[p] == '{') {
            p++; ws();
            if (p < s.size() && s[p] == '}') { p++; ok = true; }
            else for (;;) {
                ws(); if (!str()) break; ws();
                if (p >= s.size() || s[p] != ':') break;
                p++; if (!val()) break; ws();
                if (p < s.size() && s[p] == ',') { p++; continue; }
                if (p < s.size() && s[p] == '}') { p++; ok = true; }
                break;
            }
        }
        else if (s[p] == '[') {
            p++; ws();
            if (p < s.size() && s[p] == ']') { p++; ok = true; }
            else for (;;) {
                if (!val()) break; ws();
                if (p < s.size() && s[p] == ',') { p++; continue; }
                if (p < s.size() && s[p] == ']') { p++; ok = true; }
                break;
            }
        }
        else if (s[p] == '"') ok = str();
        else if (lit("true") || lit("false") || lit("null") || lit("NaN")) ok = true;
        else ok = num();
        depth--;
        return ok;
    }
};
inline bool json_ok(const std::string& v)
{
    JsonCheck j(v);
    if (!j.val()) return false;
    j.ws();
    return j.p == v.size();
}
inline bool plain_key(const std::string& k)
{
    if (k.empty() || k.size() > 60) return false;
    for (char ch : k)
        if (!(isalnum((unsigned char)ch) || ch == '_')) return false;
    return true;
}

inline void mkdirs(const std::string& path)
{
    std::string cur;
    for (size_t i = 0; i <= path.size(); i++) {
        if (i == path.size() || path[i] == '/') {
            if (!cur.empty())
                mkdir(cur.c_str(), 0777);
        }
        if (i < path.size())
            cur += path[i];
    }
}

inline std::vector<std::string> read_lines(const std::string& fn)
{
    std::vector<std::string> v;
    std::ifstream f(fn);
    std::string l;
    while (std::getline(f, l))
        v.push_back(l);
    return v;
}
inline void write_text(const std::string& fn, const std::string& s)
{
    std::ofstream f(fn, std::ios::binary | std::ios::trunc);
    f.write(s.data(), (std::streamsize)s.size());
}
inline std::string join_lines(const std::vector<std::string>& v, const std::string& eol = "\n")
{
    std::string s;
    for (auto& l : v)
        s += l + eol;
    return s;
}

} // namespace c18
