// C19 helpers: access to the objects the command line selected, finite-difference weights (Fornberg), evaluation of the
// continuous operator -div(alpha grad u) + beta u in the (r,theta) chart by numerical differentiation.
// Nothing in here looks at src/InputFunctions/SourceTerms: the operator is assembled from first principles
// (inverse metric of the mapping) out of point values of exact_solution / alpha / beta / the four Jacobian functions.
#pragma once
#include "../repo_include.h"
#include <cmath>
#include <cxxabi.h>
#include <cstdlib>
#include <string>
#include <typeinfo>
#include <vector>

typedef long double ld;

// The library declares `friend struct GMGPolarVerifAccess;` when GMGPOLAR_VERIF is defined (harness builds only).
struct GMGPolarVerifAccess {
    static const DomainGeometry* geo(const GMGPolar& g) { return g.domain_geometry_.get(); }
    static const DensityProfileCoefficients* prof(const GMGPolar& g) { return g.density_profile_coefficients_.get(); }
    static const BoundaryConditions* bc(const GMGPolar& g) { return g.boundary_conditions_.get(); }
    static const SourceTerm* src(const GMGPolar& g) { return g.source_term_.get(); }
    static const ExactSolution* sol(const GMGPolar& g) { return g.exact_solution_.get(); }
    static double kappa_eps(const GMGPolar& g) { return g.kappa_eps_; }
    static double delta_e(const GMGPolar& g) { return g.delta_e_; }
    static double alpha_jump(const GMGPolar& g) { return g.alpha_jump_; }
};

inline std::string c19_demangle(const std::type_info& ti)
{
    int st      = 0;
    char* p     = abi::__cxa_demangle(ti.name(), nullptr, nullptr, &st);
    std::string s = (st == 0 && p) ? p : ti.name();
    free(p);
    return s;
}
template <class T>
std::string c19_dyn_name(const T* p)
{
    return p ? c19_demangle(typeid(*p)) : std::string("(null)");
}

// ---------------------------------------------------------------------------------------------------------------
// Finite-difference weights on the 9 uniform nodes t_k = k - m (k = 0..8) for derivatives at t = 0, i.e. the
// evaluation point is node m of the stencil (m = 4: central, 8th order; m != 4: shifted so that no node leaves the
// domain).  Fornberg's recursion in long double.
struct C19Weights {
    ld w1[9][9]; // [m][k] first derivative
    ld w2[9][9]; // [m][k] second derivative
    C19Weights()
    {
        for (int m = 0; m < 9; m++) {
            ld x[9];
            for (int k = 0; k < 9; k++)
                x[k] = (ld)(k - m);
            ld c[9][3];
            fornberg(0.0L, x, 8, 2, c);
            for (int k = 0; k < 9; k++) {
                w1[m][k] = c[k][1];
                w2[m][k] = c[k][2];
            }
        }
    }
    static void fornberg(ld z, const ld* x, int n, int mmax, ld c[][3])
    {
        for (int i = 0; i <= n; i++)
            for (int k = 0; k <= mmax; k++)
                c[i][k] = 0;
        ld c1 = 1, c4 = x[0] - z;
        c[0][0] = 1;
        for (int i = 1; i <= n; i++) {
            int mn = i < mmax ? i : mmax;
            ld c2 = 1, c5 = c4;
            c4 = x[i] - z;
            for (int j = 0; j < i; j++) {
                ld c3 = x[i] - x[j];
                c2 *= c3;
                if (j == i - 1) {
                    for (int k = mn; k >= 1; k--)
                        c[i][k] = c1 * ((ld)k * c[i - 1][k - 1] - c5 * c[i - 1][k]) / c2;
                    c[i][0] = -c1 * c5 * c[i - 1][0] / c2;
                }
                for (int k = mn; k >= 1; k--)
                    c[j][k] = (c4 * c[j][k] - (ld)k * c[j][k - 1]) / c3;
                c[j][0] = c4 * c[j][0] / c3;
            }
            c1 = c2;
        }
    }
};
inline const C19Weights& c19_weights()
{
    static const C19Weights w;
    return w;
}

inline int c19_stencil_pos(double r, double h, double lo, double hi);
// ---------------------------------------------------------------------------------------------------------------
// One numerically differentiated quantity: estimate + uncertainty = spread + rounding bound + measured noise:
//   spread   = disagreement of the chosen estimate with its finer neighbour in the step ladder (truncation indicator),
//   rounding = a-priori bound for the chosen difference quotient: (value rounding: `ulps` units of 2^-53 relative
//              error per sample) + (abscissa rounding: the node coordinate is rounded, which moves the sample by
//              |x| 2^-53 |dv/dx|), both amplified by sum |w_k| / h^p,
//   measured = sample noise seen in the 8th differences of the samples (catches cancellation inside the sampled
//              function, which the relative model misses), amplified the same way.
struct C19Q {
    ld val = 0, unc = 0;
    int pick = 0;
};
struct C19Line {
    // samples of one function along one line for a ladder of steps; derivative orders 1 and 2 from the same samples
    std::vector<ld> d1, d2, m1, m2, sw1, sw2, h;
    std::vector<ld> eta; // measured sample noise per ladder entry: |8th difference of the 9 samples| / sqrt(C(16,8))
    template <class F>
    void sample(F fun, const std::vector<double>& steps, const std::vector<int>& pos)
    {
        const C19Weights& W = c19_weights();
        for (size_t j = 0; j < steps.size(); j++) {
            int m = pos[j];
            ld v[9], a1 = 0, a2 = 0, b1 = 0, b2 = 0, s1 = 0, s2 = 0;
            for (int k = 0; k < 9; k++)
                v[k] = fun((k - m) * steps[j]);
            for (int k = 0; k < 9; k++) {
                a1 += W.w1[m][k] * v[k];
                a2 += W.w2[m][k] * v[k];
                b1 += fabsl(W.w1[m][k] * v[k]);
                b2 += fabsl(W.w2[m][k] * v[k]);
                s1 += fabsl(W.w1[m][k]);
                s2 += fabsl(W.w2[m][k]);
            }
            static const ld binom8[9] = {1, -8, 28, -56, 70, -56, 28, -8, 1};
            ld d8 = 0;
            for (int k = 0; k < 9; k++)
                d8 += binom8[k] * v[k];
            eta.push_back(fabsl(d8) / 113.44L);
            ld hh = steps[j];
            h.push_back(hh);
            d1.push_back(a1 / hh);
            d2.push_back(a2 / (hh * hh));
            m1.push_back(b1 / hh);
            m2.push_back(b2 / (hh * hh));
            sw1.push_back(s1 / hh);
            sw2.push_back(s2 / (hh * hh));
        }
    }
    // choose the estimate that agrees best with both neighbours in the ladder (never looks at the compared quantity)
    static int choose(const std::vector<ld>& e, ld& spread)
    {
        int n = (int)e.size(), best = n - 1;
        ld bs = -1;
        if (n < 3) {
            spread = n == 2 ? fabsl(e[0] - e[1]) : 0;
            return n - 1;
        }
        for (int j = 1; j + 1 < n; j++) {
            ld a = fabsl(e[j] - e[j - 1]), b = fabsl(e[j] - e[j + 1]);
            ld sc = a + b;
            if (!(sc == sc))
                continue;
            if (bs < 0 || sc < bs) {
                bs     = sc;
                best   = j;
                spread = b; // vs the finer neighbour: truncation of e[j] plus rounding of e[j+1]
            }
        }
        if (bs < 0)
            spread = NAN;
        return best;
    }
    // order 1 or 2; ulps = rounding units per sample; xsens = |x| |dv/dx| summed over the coordinates that vary
    // along the line (abscissa rounding); if xsens < 0 it is taken as xabs * |first derivative along this line|
    C19Q get(int order, ld ulps, ld xabs, ld xsens = -1) const
    {
        const ld eps = 1.1102230246251565e-16L;
        C19Q q;
        ld spread = 0;
        const std::vector<ld>& e = order == 1 ? d1 : d2;
        q.pick = choose(e, spread);
        q.val  = e[q.pick];
        ld sp1 = 0;
        int p1 = choose(d1, sp1);
        ld sens = xsens >= 0 ? xsens : xabs * fabsl(d1[p1]);
        ld mag = order == 1 ? m1[q.pick] : m2[q.pick], sw = order == 1 ? sw1[q.pick] : sw2[q.pick];
        // measured sample noise: second smallest 8th-difference estimate over the ladder (coarse entries contain
        // truncation, a single entry may be small by accident)
        ld e1 = -1, e2 = -1;
        for (ld x : eta) {
            if (!(x == x))
                continue;
            if (e1 < 0 || x < e1) {
                e2 = e1;
                e1 = x;
            }
            else if (e2 < 0 || x < e2)
                e2 = x;
        }
        ld etam = e2 >= 0 ? e2 : (e1 >= 0 ? e1 : 0);
        // the second smallest of ~7 |noise| samples is about 0.3 sigma; 10 * etam ~ 3 sigma per sample
        q.unc   = spread + eps * (ulps * mag + sens * sw) + 10 * etam * sw;
        return q;
    }
};

// The selected objects of one test problem
struct C19Problem {
    const DomainGeometry* geo            = nullptr;
    const DensityProfileCoefficients* prof = nullptr;
    const BoundaryConditions* bc         = nullptr;
    const SourceTerm* src                = nullptr;
    const ExactSolution* sol             = nullptr;
    double Rmax                          = 1.3;
    double u(double r, double t) const { return sol->exact_solution(r, t, std::sin(t), std::cos(t)); }
    double f(double r, double t) const { return src->rhs_f(r, t, std::sin(t), std::cos(t)); }
};

// coefficient fields A = |J| alpha g^rr, B = |J| alpha g^rt, C = |J| alpha g^tt (signed det: the sign cancels in L u)
struct C19Coef {
    ld A, B, C, det, alpha;
};
inline C19Coef c19_coef(const C19Problem& p, double r, double t)
{
    double s = std::sin(t), c = std::cos(t);
    ld xr = p.geo->dFx_dr(r, t, s, c), yr = p.geo->dFy_dr(r, t, s, c);
    ld xt = p.geo->dFx_dt(r, t, s, c), yt = p.geo->dFy_dt(r, t, s, c);
    C19Coef q;
    q.alpha = p.prof->alpha(r);
    q.det   = xr * yt - xt * yr;
    q.A     = q.alpha * (xt * xt + yt * yt) / q.det;
    q.C     = q.alpha * (xr * xr + yr * yr) / q.det;
    q.B     = -q.alpha * (xr * xt + yr * yt) / q.det;
    return q;
}

// radial step ladder for a point at radius r: h0 = min(0.02 Rmax, r/8) halved `n` times (the fields behave like
// powers of r near the origin, so the step scales with r there); if the point is closer to Rmax than the finest
// step resolves, three more central steps scaled with the distance to Rmax are appended.  pos[j] = index of the
// evaluation point inside the 9-node stencil such that no node exceeds Rmax (nodes stay > r/2 > 0).
inline void c19_radial_ladder(double r, double Rmax, int n, std::vector<double>& steps, std::vector<int>& pos)
{
    steps.clear();
    pos.clear();
    double h = std::min(0.02 * Rmax, r / 8);
    for (int j = 0; j < n; j++, h *= 0.5) {
        steps.push_back(h);
        pos.push_back(c19_stencil_pos(r, h, 0.0, Rmax));
    }
    double d = Rmax - r, fin = steps.back();
    if (d > 0 && d / 8 < fin) {
        for (double hh : {d / 8, d / 16, d / 32}) {
            steps.push_back(hh);
            pos.push_back(4);
        }
    }
}
inline void c19_angular_ladder(int n, std::vector<double>& steps, std::vector<int>& pos, double h0 = 0.04)
{
    steps.clear();
    pos.clear();
    double h = h0;
    for (int j = 0; j < n; j++, h *= 0.5) {
        steps.push_back(h);
        pos.push_back(4);
    }
}

// L u = -(1/det)[d_r(A u_r + B u_t) + d_t(B u_r + C u_t)] + beta u, every derivative by its own step ladder
struct C19Lu {
    ld value;  // L u
    ld terms;  // sum of the magnitudes of the individual terms (cancellation-aware scale)
    ld unc;    // propagated uncertainty of the numerical differentiation (spread + rounding bounds)
    int picks[9];
};
inline C19Lu c19_Lu(const C19Problem& p, double r, double t)
{
    std::vector<double> hr, ht, htd;
    std::vector<int> pr, pt, ptd;
    c19_radial_ladder(r, p.Rmax, 6, hr, pr);
    c19_angular_ladder(7, ht, pt);
    // diagonal lines: couple the radial ladder with an angular step of matching index
    for (size_t j = 0; j < hr.size(); j++)
        htd.push_back(0.02 / (double)(1 << std::min<size_t>(j, 5)));
    C19Line Lur, Lut, Lp, Lm, LAr, LBr, LBt, LCt;
    Lur.sample([&](double o) { return (ld)p.u(r + o, t); }, hr, pr);
    Lut.sample([&](double o) { return (ld)p.u(r, t + o); }, ht, pt);
    // along the diagonals the parameter is the radial offset; theta moves by +-ratio * offset
    std::vector<ld> d2p, d2m;
    {
        // sampled step by step because the theta/r ratio differs per ladder entry
        for (size_t j = 0; j < hr.size(); j++) {
            double ratio = htd[j] / hr[j];
            C19Line a, b;
            a.sample([&](double o) { return (ld)p.u(r + o, t + ratio * o); }, {hr[j]}, {pr[j]});
            b.sample([&](double o) { return (ld)p.u(r + o, t - ratio * o); }, {hr[j]}, {pr[j]});
            // (d2p - d2m) / (4 ratio) = u_rt ; store estimate and rounding magnitude in Lp
            Lp.d2.push_back((a.d2[0] - b.d2[0]) / (4 * ratio));
            Lp.m2.push_back((a.m2[0] + b.m2[0]) / (4 * ratio));
            Lp.sw2.push_back((a.sw2[0] + b.sw2[0]) / (4 * ratio));
            Lp.eta.push_back(a.eta[0] > b.eta[0] ? a.eta[0] : b.eta[0]);
            Lp.d1.push_back(0);
            Lp.m1.push_back(0);
            Lp.sw1.push_back(0);
        }
    }
    LAr.sample([&](double o) { return c19_coef(p, r + o, t).A; }, hr, pr);
    LBr.sample([&](double o) { return c19_coef(p, r + o, t).B; }, hr, pr);
    LBt.sample([&](double o) { return c19_coef(p, r, t + o).B; }, ht, pt);
    LCt.sample([&](double o) { return c19_coef(p, r, t + o).C; }, ht, pt);
    const ld UU = 4, UC = 8; // rounding units per sample: solution values / rational coefficient fields
    ld at = fabsl((ld)t) + 0.2L;
    C19Q u_r = Lur.get(1, UU, r), u_rr = Lur.get(2, UU, r), u_t = Lut.get(1, UU, at), u_tt = Lut.get(2, UU, at);
    C19Q u_rt = Lp.get(2, UU, 0, (ld)r * fabsl(u_r.val) + at * fabsl(u_t.val));
    C19Q A_r = LAr.get(1, UC, r), B_r = LBr.get(1, UC, r), B_t = LBt.get(1, UC, at), C_t = LCt.get(1, UC, at);
    C19Coef q = c19_coef(p, r, t);
    ld u0 = p.u(r, t), beta = p.prof->beta(r);
    ld id = 1 / q.det, aid = fabsl(id);
    ld t1 = A_r.val * u_r.val, t2 = q.A * u_rr.val, t3 = B_r.val * u_t.val, t4 = 2 * q.B * u_rt.val, t5 = B_t.val * u_r.val,
       t6 = C_t.val * u_t.val, t7 = q.C * u_tt.val;
    const ld eps = 1.1102230246251565e-16L;
    C19Lu o;
    o.value = -id * (t1 + t2 + t3 + t4 + t5 + t6 + t7) + beta * u0;
    o.terms = aid * (fabsl(t1) + fabsl(t2) + fabsl(t3) + fabsl(t4) + fabsl(t5) + fabsl(t6) + fabsl(t7)) + fabsl(beta * u0);
    o.unc   = aid * (A_r.unc * fabsl(u_r.val) + fabsl(A_r.val) * u_r.unc + fabsl(q.A) * u_rr.unc + B_r.unc * fabsl(u_t.val) +
                   fabsl(B_r.val) * u_t.unc + 2 * fabsl(q.B) * u_rt.unc + B_t.unc * fabsl(u_r.val) + fabsl(B_t.val) * u_r.unc +
                   C_t.unc * fabsl(u_t.val) + fabsl(C_t.val) * u_t.unc + fabsl(q.C) * u_tt.unc) +
            UC * eps * o.terms;
    const C19Q* qs[9] = {&u_r, &u_rr, &u_t, &u_tt, &u_rt, &A_r, &B_r, &B_t, &C_t};
    for (int i = 0; i < 9; i++)
        o.picks[i] = qs[i]->pick;
    return o;
}

// stencil position so that all radial nodes r + (k-m) h lie in [lo, hi]
inline int c19_stencil_pos(double r, double h, double lo, double hi)
{
    int m = 4;
    while (m > 0 && r - m * h < lo)
        m--;
    while (m < 8 && r + (8 - m) * h > hi)
        m++;
    return m;
}
