// C10: each multigrid cycle is a consistent correction scheme (library cycle == reference recursion, exact solution is a
// fixed point, two-level cycle without smoothing == algebraic coarse-grid correction, scratch contents do not matter).
#include "common/driver.h"
#include "common/ref_cycle.h"
#include "common/ref_operator.h"
#include "common/solver_kit.h"
#include "common/gen_grid.h"
#include <cstring>

typedef GMGPolarVerifAccess Acc;

static void fill_scratch(Rng& rng, std::vector<Level>& L, int kind, bool keep_level0_solution)
{
    // kind 0: zeros, 1: garbage +-1e3, 2: NaN-free huge values
    for (size_t d = 0; d < L.size(); d++) {
        auto fill = [&](Vector<double>& v) {
            for (int k = 0; k < v.size(); k++)
                v[k] = kind == 0 ? 0.0 : (kind == 1 ? rng.uniform(-1e3, 1e3) : rng.sign() * rng.loguniform(1e-8, 1e8));
        };
        if (!(d == 0 && keep_level0_solution))
            fill(L[d].solution());
        fill(L[d].residual());
        fill(L[d].error_correction());
    }
}

static void run_case(CaseCtx& c)
{
    Rng& rng = c.rng;
    SolverConfig cfg;
    cfg.ps = random_solver_problem(rng, true, true);
    cfg.R0 = rng.pick({1e-5, 1e-5, 1e-3, 0.1, 1e-8});
    int size = rng.range(0, 9);
    cfg.nr_exp = size == 0 ? 3 : (size <= 6 ? 4 : 5);
    cfg.ntheta_exp = rng.coin(0.7) ? -1 : cfg.nr_exp + rng.range(0, 1);
    cfg.aniso = (cfg.nr_exp >= 4 && rng.coin(0.2)) ? rng.range(1, 2) : 0;
    cfg.divideBy2 = (size >= 9 && c.thorough()) ? 1 : 0;
    cfg.dirbc = rng.coin();
    cfg.strategy = rng.range(0, 1);
    if (cfg.strategy == 1) {
        cfg.cache_prof = rng.coin();
        cfg.cache_geo = rng.coin();
    }
    bool extrap = rng.coin(0.55);
    cfg.extrapolation = extrap ? rng.pick({1, 1, 2, 3}) : 0;
    cfg.maxLevels = rng.pick({-1, -1, 2, 3, 4});
    cfg.pre = rng.range(0, 3);
    cfg.post = rng.range(0, 3);
    cfg.fmg = rng.coin(0.5);
    cfg.threads = rng.pick({1, 1, 1, 3});
    if (c.arg("threads") == "multi") // stage with OMP_THREAD_LIMIT=1: every configuration asks for several threads
        cfg.threads = rng.pick({2, 3, 4});
    cfg.with_exact = false;
    int type = rng.range(0, 2);
    int start_kind = rng.range(0, 3); // 0 random, 1 zero, 2 exact discrete solution (non-extrapolated only), 3 wide
    if (start_kind == 2 && extrap)
        start_kind = 0;
    int scratch_kind = rng.range(0, 2);
    bool two_level_nosmooth = rng.coin(0.2);
    // a few hierarchies whose level 1 lies above 10 000 nodes (129 x 512 -> 65 x 256 -> ...), with thread counts that do not
    // divide the node counts: the parallel paths of the vector kernels inside the cycles
    const bool large = rng.coin(c.thorough() ? 0.01 : 0.03);
    if (large) {
        cfg.nr_exp = 5;
        cfg.divideBy2 = 2;
        cfg.ntheta_exp = 7;
        cfg.aniso = 0;
        extrap = rng.coin(0.8);
        cfg.extrapolation = extrap ? rng.pick({1, 1, 3}) : 0;
        cfg.maxLevels = rng.pick({-1, 3, 4});
        cfg.threads = rng.pick({3, 5, 6, 7});
        if (start_kind == 2)
            start_kind = 0;
        two_level_nosmooth = false;
    }
    if (two_level_nosmooth) {
        cfg.maxLevels = 2;
        cfg.pre = cfg.post = 0;
    }
    static const char* sk[] = {"random", "zero", "exact", "wide"};
    static const char* sck[] = {"zeros", "garbage", "huge"};
    cfg.describe(c.obs.params);
    c.obs.params.i("cycle_type", type).str("start", sk[start_kind]).str("scratch", sck[scratch_kind]).b("two_level_nosmooth", two_level_nosmooth).b("large", large);
    c.announce(std::string(extrap ? "extrap" : "plain") + "/cycle" + std::to_string(type));

    std::unique_ptr<GMGPolar> g = cfg.make_api();
    g->setup();
    std::vector<Level>& L = Acc::levels(*g);
    const int nlev = Acc::number_of_levels(*g);
    Interpolation& I = Acc::interpolation(*g);
    bool fgs = Acc::full_grid_smoothing(*g);
    if (cfg.extrapolation == 3) { // combined mode switches at run time: exercise both settings
        fgs = rng.coin();
        Acc::full_grid_smoothing(*g) = fgs;
    }
    c.obs.params.i("levels", nlev).b("full_grid_smoothing", fgs).i("nr", L[0].grid().nr()).i("ntheta", L[0].grid().ntheta());
    // start depth: 0, or deeper (plain cycles only, needs the level's rhs which exists when FMG is on)
    int depth = 0;
    if (!extrap && cfg.fmg && nlev >= 3 && rng.coin(0.3))
        depth = rng.range(1, nlev - 2);
    bool use_extrap_cycle = extrap && depth == 0;
    c.obs.params.i("start_depth", depth);

    Level& lv = L[depth];
    const PolarGrid& grid = lv.grid();
    const int n = grid.numberOfNodes();
    Vector<double> f = lv.rhs(); // discretised right-hand side built by setup()
    // start iterate
    Vector<double> u0(n);
    Vector<double> xstar;
    const DomainGeometry& geo = *Acc::geometry(*g);
    const DensityProfileCoefficients& prof = *Acc::profile(*g);
    if (start_kind == 2) {
        LevelCache lc(grid, prof, geo, true, true);
        DirectSolverGiveCustomLU ds(grid, lc, geo, prof, cfg.dirbc, 1);
        xstar = f;
        ds.solveInPlace(xstar);
        RefOp ref(grid, geo, prof, cfg.dirbc);
        std::vector<ld> Ax;
        ref.apply(xstar, Ax);
        Vector<double> r(n);
        for (int k = 0; k < n; k++)
            r[k] = (double)((ld)f[k] - Ax[k]);
        ds.solveInPlace(r);
        for (int k = 0; k < n; k++)
            xstar[k] += r[k];
        u0 = xstar;
    }
    else if (start_kind == 0)
        u0 = random_vector(rng, n, 0);
    else if (start_kind == 1)
        assign(u0, 0.0);
    else
        u0 = random_vector(rng, n, 1);

    // a cycle is linear in (u, f): data scaled by a power of two (tiny or huge source and boundary values are legal input)
    // must give the scaled result; 15% of the cases run with everything scaled by 2^-50, 8% by 2^40
    const double data_scale = rng.coin(0.15) ? std::ldexp(1.0, -50) : (rng.coin(0.09) ? std::ldexp(1.0, 40) : 1.0);
    if (data_scale != 1.0) {
        for (int k = 0; k < n; k++) {
            f[k] *= data_scale;
            u0[k] *= data_scale;
        }
        for (int k = 0; k < xstar.size(); k++)
            xstar[k] *= data_scale;
        for (int l = 0; l < nlev; l++) {
            Vector<double>& r = L[l].rhs();
            for (int k = 0; k < r.size(); k++)
                r[k] *= data_scale;
        }
    }
    c.obs.params.num("data_scale", data_scale);
    // reference result (fresh buffers)
    RefCycle rc(L, I, nlev, cfg.pre, cfg.post, fgs);
    Vector<double> u_ref = u0;
    rc.cycle(type, use_extrap_cycle, depth, u_ref, f);

    // library result, with polluted scratch
    auto run_lib = [&](int scratch) {
        fill_scratch(rng, L, scratch, false);
        lv.solution() = u0;
        lv.rhs()      = f;
        Acc::cycle(*g, type, use_extrap_cycle, depth, lv.solution(), lv.rhs(), lv.residual());
        return Vector<double>(lv.solution());
    };
    Vector<double> u_lib = run_lib(scratch_kind);
    std::string cls = std::string(use_extrap_cycle ? "extrapolated" : "plain") + "/" + (type == 0 ? "V" : (type == 1 ? "W" : "F"));
    double un = data_scale, d = 0; // floor of the normalisation scales with the data
    bool finite = true, bitexact = true;
    for (int k = 0; k < n; k++) {
        un = std::max(un, std::fabs(u_ref[k]));
        d  = std::max(d, std::fabs(u_lib[k] - u_ref[k]));
        finite = finite && std::isfinite(u_lib[k]) && std::isfinite(u_ref[k]);
        bitexact = bitexact && std::memcmp(&u_lib[k], &u_ref[k], sizeof(double)) == 0;
    }
    c.obs.require("cycle_result_finite", finite, cls);
    c.obs.check("cycle_vs_reference_recursion", finite ? d / un : NAN, cls + "/levels" + std::to_string(std::min(nlev - depth, 4)) + (cfg.strategy ? "/give" : "/take"));
    c.obs.info.b("bit_exact_agreement_with_reference", bitexact);
    // rhs must not be modified by a cycle
    bool rhs_same = true;
    for (int k = 0; k < n; k++)
        rhs_same = rhs_same && lv.rhs()[k] == f[k];
    c.obs.require("rhs_unchanged_by_cycle", rhs_same, cls);

    // scratch independence: same cycle, different scratch contents, 1 thread => bit-identical
    if (cfg.threads == 1) {
        int other = (scratch_kind + 1 + rng.range(0, 1)) % 3;
        Vector<double> u_lib2 = run_lib(other);
        bool same = true;
        for (int k = 0; k < n; k++)
            same = same && std::memcmp(&u_lib[k], &u_lib2[k], sizeof(double)) == 0;
        c.obs.require("independent_of_scratch_contents", same, cls + "/" + sck[scratch_kind] + "-vs-" + sck[other]);
    }
    // exact discrete solution is a fixed point (plain cycles)
    if (start_kind == 2) {
        double xs = 0, dd = 0;
        for (int k = 0; k < n; k++) {
            xs = std::max(xs, std::fabs(xstar[k]));
            dd = std::max(dd, std::fabs(u_lib[k] - xstar[k]));
        }
        const double amp = std::max(1.0, 1e-3 * cfg.ps.Rmax / cfg.R0);
        c.obs.check("exact_solution_fixed_point", xs > 0 ? dd / xs / amp : 0.0, cls);
        c.obs.info.num("fixed_point_raw", xs > 0 ? dd / xs : 0.0);
    }
    // two levels, no smoothing: algebraic coarse-grid correction from independent pieces
    if (two_level_nosmooth && nlev == 2 && depth == 0) {
        RefOp ref(grid, geo, prof, cfg.dirbc);
        std::vector<ld> Au;
        ref.apply(u0, Au);
        Vector<double> r(n);
        for (int k = 0; k < n; k++)
            r[k] = (double)((ld)f[k] - Au[k]);
        Level& nx = L[1];
        const PolarGrid& cg = nx.grid();
        const int nc = cg.numberOfNodes();
        Vector<double> rcv(nc);
        if (use_extrap_cycle) {
            Vector<double> Rr(nc), uc(nc);
            I.applyExtrapolatedRestriction0(lv, nx, Rr, r);
            for (int ic = 0; ic < cg.nr(); ic++)
                for (int jc = 0; jc < cg.ntheta(); jc++)
                    uc[cg.index(ic, jc)] = u0[grid.index(2 * ic, 2 * jc)];
            RefOp refc(cg, geo, prof, cfg.dirbc);
            std::vector<ld> Acuc;
            refc.apply(uc, Acuc);
            for (int k = 0; k < nc; k++)
                rcv[k] = (double)((4.0L / 3.0L) * (ld)Rr[k] - (1.0L / 3.0L) * ((ld)nx.rhs()[k] - Acuc[k]));
        }
        else
            I.applyRestriction0(lv, nx, rcv, r);
        LevelCache lcc(cg, prof, geo, true, true);
        DirectSolverGiveCustomLU dsc(cg, lcc, geo, prof, cfg.dirbc, 1);
        dsc.solveInPlace(rcv);
        Vector<double> Pe(n);
        if (use_extrap_cycle)
            I.applyExtrapolatedProlongation0(nx, lv, Pe, rcv);
        else
            I.applyProlongation0(nx, lv, Pe, rcv);
        double dd = 0, s = 1.0;
        for (int k = 0; k < n; k++) {
            double v = u0[k] + Pe[k];
            s  = std::max(s, std::fabs(v));
            dd = std::max(dd, std::fabs(u_lib[k] - v));
        }
        const double amp = std::max(1.0, 1e-3 * cfg.ps.Rmax / cfg.R0);
        c.obs.check("two_level_coarse_grid_correction", dd / s / amp, cls);
    }
    // correction non-trivial?
    double corr = 0;
    for (int k = 0; k < n; k++)
        corr = std::max(corr, std::fabs(u_lib[k] - u0[k]));
    JObj sig;
    sig.i("cycle", type).b("extrap", use_extrap_cycle).i("levels", nlev).i("depth", depth).i("pre", cfg.pre).i("post", cfg.post).str("strategy", cfg.strategy ? "give" : "take");
    sig.b("dirbc", cfg.dirbc).str("start", sk[start_kind]).str("scratch", sck[scratch_kind]).b("fgs", fgs);
    c.obs.top.obj("sig", sig);
    c.obs.top.b("nontrivial", corr > 0 || start_kind == 2);
}

int main(int argc, char** argv) { return driver_main(argc, argv, "C10", run_case); }
