// C19 (addition): the library evaluates ONE source-term / boundary / exact-solution / geometry / profile object from all
// threads of the rhs build. Every shipped class is evaluated on a lattice by T threads sharing the object (loops shaped like
// build_rhs_f: circles then radial lines) and compared bit for bit with the sequential evaluation: the value at a point
// must be a function of the point only.
#include "common/driver.h"
#include "common/factory.h"
#include <cstring>
#include <omp.h>

static void run_case(CaseCtx& c)
{
    Rng& rng = c.rng;
    // all shipped (geometry, problem, profile) triples are enumerated by the case index
    std::vector<ProblemSpec> all;
    for (int geom = 0; geom <= 3; geom++)
        for (int prob = 0; prob <= 3; prob++)
            for (int prof = 0; prof <= 6; prof++) {
                ProblemSpec s;
                s.geom = geom;
                s.prob = prob;
                s.prof = prof;
                s.Rmax = 1.3;
                try {
                    make_source(s);
                    make_boundary(s);
                }
                catch (const std::exception&) {
                    continue;
                }
                all.push_back(s);
            }
    ProblemSpec s = all[(size_t)(c.index % (long long)all.size())];
    random_geom_params(rng, s, rng.coin());
    s.alpha_jump = documented_alpha_jump(s.prof, s.Rmax);
    int T = rng.pick({2, 3, 4, 6, 8, 16});
    s.describe(c.obs.params);
    c.obs.params.i("T", T).i("shipped_triples", (long long)all.size());
    c.announce(s.name());
    auto f = make_source(s);
    auto bc = make_boundary(s);
    auto ex = make_exact(s);
    auto geo = make_geometry(s);
    auto pr = make_profile(s);
    const int nr = 24, nt = 32, ncirc = 9, NQ = 12;
    std::vector<double> r(nr), th(nt);
    for (int i = 0; i < nr; i++)
        r[i] = 1e-5 + (s.Rmax - 1e-5) * (i + rng.uniform(0.1, 0.9)) / nr;
    for (int j = 0; j < nt; j++)
        th[j] = 2 * M_PI * (j + rng.uniform(0.0, 0.9)) / nt;
    auto eval = [&](int i, int j, double* out) {
        double sn = std::sin(th[j]), cs = std::cos(th[j]);
        out[0] = f->rhs_f(r[i], th[j], sn, cs);
        out[1] = bc->u_D(s.Rmax, th[j], sn, cs);
        out[2] = bc->u_D_Interior(r[i], th[j], sn, cs);
        out[3] = ex->exact_solution(r[i], th[j], sn, cs);
        out[4] = geo->Fx(r[i], th[j], sn, cs);
        out[5] = geo->Fy(r[i], th[j], sn, cs);
        out[6] = geo->dFx_dr(r[i], th[j], sn, cs);
        out[7] = geo->dFy_dr(r[i], th[j], sn, cs);
        out[8] = geo->dFx_dt(r[i], th[j], sn, cs);
        out[9] = geo->dFy_dt(r[i], th[j], sn, cs);
        out[10] = pr->alpha(r[i]);
        out[11] = pr->beta(r[i]);
    };
    std::vector<double> seq((size_t)nr * nt * NQ), par((size_t)nr * nt * NQ);
    for (int i = 0; i < nr; i++)
        for (int j = 0; j < nt; j++)
            eval(i, j, &seq[((size_t)i * nt + j) * NQ]);
    static const char* qn[NQ] = {"rhs_f", "u_D", "u_D_Interior", "exact_solution", "Fx", "Fy", "dFx_dr", "dFy_dr", "dFx_dt", "dFy_dt", "alpha", "beta"};
    long long differing[NQ] = {0};
    int sweeps = c.thorough() ? 12 : 6;
    omp_set_num_threads(T);
    for (int sweep = 0; sweep < sweeps; sweep++) {
#pragma omp parallel
        {
#pragma omp for nowait
            for (int i = 0; i < ncirc; i++)
                for (int j = 0; j < nt; j++)
                    eval(i, j, &par[((size_t)i * nt + j) * NQ]);
#pragma omp for
            for (int j = 0; j < nt; j++)
                for (int i = ncirc; i < nr; i++)
                    eval(i, j, &par[((size_t)i * nt + j) * NQ]);
        }
        for (size_t k = 0; k < seq.size(); k++)
            if (std::memcmp(&seq[k], &par[k], sizeof(double)) != 0)
                differing[k % NQ]++;
    }
    for (int q = 0; q < NQ; q++)
        c.obs.require("concurrent_evaluation_equals_sequential", differing[q] == 0, s.name() + "/" + qn[q]);
    JObj sig;
    sig.str("triple", s.name());
    c.obs.top.obj("sig", sig);
    c.obs.top.b("nontrivial", true);
    c.obs.info.i("values_compared", (long long)seq.size() * sweeps);
}

int main(int argc, char** argv) { return driver_main(argc, argv, "C19", run_case); }
