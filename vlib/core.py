"""Core of the /verif check runner: build, drive, judge, evidence.

A check is described by a property module in /verif/oracles (cNN.py).  The generic flow is
  build variant(s)  ->  run driver workers over case indices  ->  judge observation log  ->  evidence + exit code.
Measurement is done by the C++ drivers (harness/), judgement here with the thresholds of the property module.
"""
import fcntl
import fnmatch
import hashlib
import json
import math
import os
import re
import shutil
import signal
import subprocess
import sys
import time
from concurrent.futures import ThreadPoolExecutor

VERIF = os.path.dirname(os.path.dirname(os.path.abspath(__file__)))
REPO = os.environ.get("VERIF_REPO", "/repo")
NPROC = int(os.environ.get("VERIF_JOBS", "16"))
BUILD_ROOT = os.path.join(VERIF, ".build")
RUNS_ROOT = os.path.join(VERIF, ".runs")
CCACHE_DIR = os.path.join(VERIF, ".ccache")

VARIANTS = {
    # name: (compiler, cxx flags, extra cmake args)
    "plain": ("g++", "-O2 -g1 -fno-omit-frame-pointer", []),
    "asan": ("g++", "-O1 -g -fno-omit-frame-pointer -fsanitize=address,undefined -fsanitize=float-cast-overflow "
                    "-fno-sanitize-recover=all", []),
    "tsan": ("clang++-14", "-O1 -g -fno-omit-frame-pointer -fsanitize=thread", []),
    "omp": ("clang++-14", "-O2 -g1 -fno-omit-frame-pointer", []),
    "init0": ("clang++-14", "-O1 -g1 -ftrivial-auto-var-init=zero "
                            "-enable-trivial-auto-var-init-zero-knowing-it-will-be-removed-from-clang", []),
    "initP": ("clang++-14", "-O1 -g1 -ftrivial-auto-var-init=pattern", []),
}


# 16 worker processes each start their own OpenMP teams: idle threads must sleep, not spin
DEFAULT_ENV = {"OMP_WAIT_POLICY": "passive", "GOMP_SPINCOUNT": "0", "KMP_BLOCKTIME": "0"}


class Inconclusive(Exception):
    pass


def log(msg):
    print(msg, file=sys.stderr, flush=True)


def build_dir(variant):
    tag = variant
    if os.path.realpath(REPO) != "/repo":
        tag += "-" + hashlib.sha1(os.path.realpath(REPO).encode()).hexdigest()[:8]
    return os.path.join(BUILD_ROOT, tag)


def build(variant, targets):
    """Configure (always, so new sources are globbed) and build the given targets from REPO's working tree."""
    comp, flags, extra = VARIANTS[variant]
    bdir = build_dir(variant)
    os.makedirs(bdir, exist_ok=True)
    os.makedirs(CCACHE_DIR, exist_ok=True)
    env = dict(os.environ)
    env["CCACHE_DIR"] = CCACHE_DIR
    env["CCACHE_BASEDIR"] = "/"
    env["CCACHE_NOHASHDIR"] = "1"
    env.setdefault("CCACHE_MAXSIZE", "8G")
    lock = open(os.path.join(BUILD_ROOT, variant + ".lock"), "w")
    fcntl.flock(lock, fcntl.LOCK_EX)
    try:
        t0 = time.time()
        cfg = ["cmake", "-G", "Ninja", "-S", os.path.join(VERIF, "harness"), "-B", bdir,
               "-DVERIF_REPO=" + os.path.realpath(REPO), "-DCMAKE_BUILD_TYPE=Verif",
               "-DCMAKE_CXX_COMPILER=" + comp, "-DCMAKE_CXX_FLAGS=" + flags,
               "-DCMAKE_CXX_COMPILER_LAUNCHER=ccache"] + extra
        r = subprocess.run(cfg, env=env, stdout=subprocess.PIPE, stderr=subprocess.STDOUT, text=True)
        if r.returncode != 0:
            log(r.stdout[-4000:])
            raise Inconclusive("cmake configure failed for variant %s" % variant)
        r = subprocess.run(["cmake", "--build", bdir, "-j", str(NPROC), "--target"] + list(targets), env=env,
                           stdout=subprocess.PIPE, stderr=subprocess.STDOUT, text=True)
        if r.returncode != 0:
            log(r.stdout[-6000:])
            raise Inconclusive("build failed for variant %s targets %s" % (variant, targets))
        log("[build] %s %s: %.1fs" % (variant, ",".join(targets), time.time() - t0))
    finally:
        fcntl.flock(lock, fcntl.LOCK_UN)
        lock.close()
    return bdir


def sig_name(rc):
    if rc < 0:
        try:
            return signal.Signals(-rc).name
        except ValueError:
            return "SIG%d" % -rc
    return "exit%d" % rc


CRASH_PATTERNS = [
    (re.compile(r"ERROR: AddressSanitizer: ([\w-]+)"), "asan:%s"),
    (re.compile(r"ERROR: LeakSanitizer"), "lsan"),
    (re.compile(r"runtime error: (.*?)(?: \d| for type|$)"), "ubsan:%s"),
    (re.compile(r"Assertion `(.*?)' failed"), "assert:%s"),
    (re.compile(r"terminate called after throwing an instance of '(.*?)'"), "terminate:%s"),
    (re.compile(r"WARNING: ThreadSanitizer: ([\w -]+?) \("), "tsan:%s"),
    (re.compile(r"== (Conditional jump or move depends on uninitialised value|Use of uninitialised value|Invalid (?:read|write) of size \d+|Syscall param .*? uninitialised)"), "memcheck:%s"),
]


def classify_crash(rc, stderr_text):
    for pat, fmt in CRASH_PATTERNS:
        m = pat.search(stderr_text)
        if m:
            s = fmt % m.groups() if m.groups() else fmt
            return re.sub(r"\s+", " ", s)[:120]
    return sig_name(rc)


class Stage:
    """One driver run over a range of case indices in one build variant."""

    def __init__(self, name, driver, variant="plain", cases=None, args=None, env=None, wrapper=None,
                 timeout_per_case=60.0, chunk=None, offset=0, extra_targets=None, report_exit_codes=None):
        self.name = name
        self.driver = driver
        self.variant = variant
        self.cases = cases or {"quick": 100, "thorough": 1000}
        self.args = args or {}
        self.env = env or {}
        self.wrapper = wrapper or []
        self.timeout_per_case = timeout_per_case
        self.chunk = chunk
        self.offset = offset
        self.extra_targets = extra_targets or []
        # exit codes by which a wrapper (valgrind --error-exitcode) reports findings although every case completed
        self.report_exit_codes = report_exit_codes or []


def run_chunk(exe, stage, seed, tier, start, count, outdir, results):
    """Run cases [start, start+count) in as few processes as possible, restarting after a crash/timeout."""
    i = start
    end = start + count
    attempt_timeout = {}
    while i < end:
        out = os.path.join(outdir, "%s_%d.jsonl" % (stage.name, i))
        if os.path.exists(out):
            os.remove(out)
        cmd = list(stage.wrapper) + [exe, "--seed", str(seed), "--tier", tier, "--start", str(i), "--count",
                                     str(end - i), "--out", out]
        for k, v in stage.args.items():
            cmd += ["--arg", "%s=%s" % (k, v)]
        env = dict(os.environ)
        env.update(DEFAULT_ENV)
        env.update(stage.env)
        tmo = max(30.0, stage.timeout_per_case * (end - i))
        t0 = time.time()
        try:
            p = subprocess.run(cmd, env=env, stdout=subprocess.PIPE, stderr=subprocess.PIPE, timeout=tmo,
                               errors="replace", text=True)
            rc, err, timed_out = p.returncode, p.stderr, False
        except subprocess.TimeoutExpired as e:
            rc, timed_out = -9, True
            err = e.stderr if isinstance(e.stderr, str) else (e.stderr or b"").decode("utf8", "replace")
        last_begin, last_pre, done = None, None, set()
        if os.path.exists(out):
            with open(out, errors="replace") as f:
                for line in f:
                    line = line.strip()
                    if not line:
                        continue
                    try:
                        o = json.loads(line)
                    except ValueError:
                        continue
                    if "begin" in o:
                        last_begin = o["begin"]
                        last_pre = None
                    elif "pre" in o:
                        last_pre = o
                    else:
                        o["_stage"] = stage.name
                        results["obs"].append(o)
                        done.add(o.get("case"))
        if rc == 0 and not timed_out:
            break
        crashed_case = last_begin if last_begin is not None and last_begin not in done else None
        if crashed_case is None and rc in stage.report_exit_codes and last_begin is not None:
            # the wrapper reported errors at exit: attribute them to the (single) case of this process
            results["crashes"].append({"stage": stage.name, "case": last_begin, "rc": rc,
                                       "kind": classify_crash(rc, err), "pre": last_pre, "stderr": err[-3000:]})
            break
        if crashed_case is None:
            # the process failed outside a case: harness failure
            results["harness_errors"].append({"stage": stage.name, "start": i, "rc": rc, "stderr": err[-2000:]})
            break
        if timed_out:
            n = attempt_timeout.get(crashed_case, 0)
            attempt_timeout[crashed_case] = n + 1
            if n == 0:
                # re-run this case alone once before calling it a hang
                i = crashed_case
                sub = Stage(stage.name, stage.driver, stage.variant, stage.cases, stage.args, stage.env,
                            stage.wrapper, stage.timeout_per_case * 4, None, stage.offset)
                sub_res = {"obs": [], "crashes": [], "harness_errors": [], "timeouts": []}
                run_single(exe, sub, seed, tier, crashed_case, outdir, sub_res)
                results["obs"] += sub_res["obs"]
                results["crashes"] += sub_res["crashes"]
                results["harness_errors"] += sub_res["harness_errors"]
                results["timeouts"] += sub_res["timeouts"]
                i = crashed_case + 1
                continue
        results["crashes"].append({"stage": stage.name, "case": crashed_case, "rc": rc,
                                   "kind": "timeout" if timed_out else classify_crash(rc, err),
                                   "pre": last_pre, "stderr": err[-3000:], "wall": time.time() - t0})
        i = crashed_case + 1


def run_single(exe, stage, seed, tier, case, outdir, results):
    out = os.path.join(outdir, "%s_single_%d.jsonl" % (stage.name, case))
    if os.path.exists(out):
        os.remove(out)
    cmd = list(stage.wrapper) + [exe, "--seed", str(seed), "--tier", tier, "--start", str(case), "--count", "1",
                                 "--out", out]
    for k, v in stage.args.items():
        cmd += ["--arg", "%s=%s" % (k, v)]
    env = dict(os.environ)
    env.update(DEFAULT_ENV)
    env.update(stage.env)
    try:
        p = subprocess.run(cmd, env=env, stdout=subprocess.PIPE, stderr=subprocess.PIPE,
                           timeout=max(120.0, stage.timeout_per_case), errors="replace", text=True)
        rc, err, timed_out = p.returncode, p.stderr, False
    except subprocess.TimeoutExpired as e:
        rc, timed_out = -9, True
        err = e.stderr if isinstance(e.stderr, str) else (e.stderr or b"").decode("utf8", "replace")
    pre, got = None, False
    if os.path.exists(out):
        for line in open(out, errors="replace"):
            try:
                o = json.loads(line)
            except ValueError:
                continue
            if "pre" in o:
                pre = o
            elif "begin" not in o:
                o["_stage"] = stage.name
                results["obs"].append(o)
                got = True
    if timed_out:
        results["timeouts"].append({"stage": stage.name, "case": case})
    elif rc != 0 and (not got or rc in stage.report_exit_codes):
        results["crashes"].append({"stage": stage.name, "case": case, "rc": rc, "kind": classify_crash(rc, err),
                                   "pre": pre, "stderr": err[-3000:]})
    return rc, err


def run_stage(stage, seed, tier, outdir, only_case=None):
    bdir = build(stage.variant, [stage.driver] + list(stage.extra_targets))
    exe = os.path.join(bdir, stage.driver)
    stage.args = {k: (v.replace("{bdir}", bdir) if isinstance(v, str) else v) for k, v in stage.args.items()}
    stage.env = {k: (v.replace("{bdir}", bdir) if isinstance(v, str) else v) for k, v in stage.env.items()}
    results = {"obs": [], "crashes": [], "harness_errors": [], "timeouts": []}
    os.makedirs(outdir, exist_ok=True)
    if only_case is not None:
        run_single(exe, stage, seed, tier, only_case, outdir, results)
        return results
    n = stage.cases[tier]
    chunk = stage.chunk or max(1, min(200, n // (NPROC * 4) or 1))
    jobs = [(s, min(chunk, n - s)) for s in range(0, n, chunk)]
    t0 = time.time()
    with ThreadPoolExecutor(max_workers=NPROC) as ex:
        futs = [ex.submit(run_chunk, exe, stage, seed, tier, stage.offset + s, c, outdir, results) for s, c in jobs]
        for f in futs:
            f.result()
    log("[run] stage %s: %d cases, %d observations, %d crashes, %.1fs" % (
        stage.name, n, len(results["obs"]), len(results["crashes"]), time.time() - t0))
    return results


# ---------------------------------------------------------------------------------------------------------------
# known findings

def load_findings():
    out = []
    p = os.path.join(VERIF, "known_findings.json")
    if os.path.exists(p):
        out += json.load(open(p))["findings"]
    return out


def match_finding(findings, prop, key):
    for f in findings:
        if f.get("status") != "open" or f.get("property") != prop:
            continue
        pats = f["key"] if isinstance(f["key"], list) else [f["key"]]
        for pat in pats:
            if fnmatch.fnmatchcase(key, pat):
                return f
    return None


# ---------------------------------------------------------------------------------------------------------------
# judging

def is_bad(value, thr):
    if value is None:
        return True
    if isinstance(value, float) and math.isnan(value):
        return True
    return value > thr


class Verdict:
    def __init__(self, prop, tier, seed):
        self.prop, self.tier, self.seed = prop, tier, seed
        self.violations = []   # dicts: key, what, replay(dict), detail
        self.inconclusive = []  # strings
        self.evaluations = 0
        self.signatures = set()
        self.samples = []
        self.worst = {}       # check -> (value/thr ratio, value, case)
        self.counts = {}      # check -> comparisons
        self.extra = {}       # extra coverage keys
        self.assumptions = []
        self.rule = ""
        self.level = "exploration"
        self.t0 = time.time()

    def add_violation(self, key, what, replay, detail=None):
        self.violations.append({"key": key, "what": what, "replay": replay, "detail": detail})


def judge_observations(mod, verdict, results, stage_names=None):
    """Generic judge: every check value is compared with mod.THRESHOLDS[check]."""
    thr = mod.THRESHOLDS
    prop = mod.ID
    findings = load_findings()
    for o in results["obs"]:
        verdict.evaluations += 1
        stage = o.get("_stage", "")
        if "exception" in o:
            key = "%s/harness-exception/%s" % (prop, re.sub(r"[^A-Za-z0-9_.:-]+", "-", o["exception"])[:80])
            handler = getattr(mod, "on_exception", None)
            if handler is None or handler(o, verdict) is not True:
                verdict.add_violation(key, "exception escaped case: " + o["exception"],
                                      {"stage": stage, "case": o.get("case")}, o.get("params"))
        nontriv = o.get("nontrivial", True)
        if hasattr(mod, "nontrivial"):
            nontriv = mod.nontrivial(o)
        if nontriv:
            sig = mod.signature(o) if hasattr(mod, "signature") else o.get("sig")
            verdict.signatures.add(json.dumps(sig, sort_keys=True))
        if len(verdict.samples) < 5 and nontriv:
            verdict.samples.append({"stage": stage, "case": o.get("case"), "params": o.get("params"),
                                    "checks": o.get("checks")})
        for name, value in (o.get("checks") or {}).items():
            if name not in thr:
                verdict.inconclusive.append("driver emitted unknown check '%s' (stage %s)" % (name, stage))
                continue
            t = thr[name]
            verdict.counts[name] = verdict.counts.get(name, 0) + (o.get("counts") or {}).get(name, 1)
            ratio = (value / t) if (t > 0 and value is not None and not (isinstance(value, float) and math.isnan(value))) else (
                float("inf") if is_bad(value, t) else 0.0)
            bad = is_bad(value, t)
            known = False
            if bad:
                suffix = (o.get("keys") or {}).get(name, "")
                key = "%s/%s" % (prop, name) + ("/" + suffix if suffix else "")
                known = match_finding(findings, prop, key) is not None
                verdict.add_violation(key, "%s = %r exceeds %g" % (name, value, t),
                                      {"stage": stage, "case": o.get("case")}, o.get("params"))
            # the "worst margin" statistic describes the observations that are NOT explained by a recorded finding
            w = verdict.worst.get(name)
            if not known and (w is None or ratio > w["ratio"]):
                verdict.worst[name] = {"ratio": ratio, "value": value, "threshold": t, "case": o.get("case"),
                                       "stage": stage}
    for c in results["crashes"]:
        verdict.evaluations += 1
        cls = ""
        if c.get("pre"):
            cls = c["pre"].get("class", "")
        key = "%s/crash/%s%s" % (prop, (cls + "/") if cls else "", c["kind"])
        handler = getattr(mod, "on_crash", None)
        if handler is not None:
            r = handler(c, verdict)
            if r is True:
                continue
            if isinstance(r, str):
                key = r
        verdict.add_violation(key, "driver died in case %s: %s" % (c["case"], c["kind"]),
                              {"stage": c["stage"], "case": c["case"]},
                              {"pre": c.get("pre"), "stderr_tail": c.get("stderr", "")[-1500:]})
    for t in results["timeouts"]:
        verdict.inconclusive.append("case %s of stage %s timed out twice" % (t["case"], t["stage"]))
    for h in results["harness_errors"]:
        verdict.inconclusive.append("harness failure in stage %s (rc %s): %s" % (h["stage"], h["rc"], h["stderr"][-500:]))


def finish(mod, verdict, stages_by_name):
    """Print VIOLATION / KNOWN-FINDING lines, write evidence, return exit code."""
    prop = mod.ID
    findings = load_findings()
    rdir = os.path.join(RUNS_ROOT, prop, "replay")
    os.makedirs(rdir, exist_ok=True)
    known, unknown = {}, {}
    for v in verdict.violations:
        f = match_finding(findings, prop, v["key"])
        if f is not None:
            known.setdefault(f["id"], {"f": f, "n": 0, "keys": set()})
            known[f["id"]]["n"] += 1
            known[f["id"]]["keys"].add(v["key"])
        else:
            unknown.setdefault(v["key"], []).append(v)
    for fid, k in sorted(known.items()):
        print("KNOWN-FINDING: property=%s %s: %s [%d observations, keys: %s]" % (
            prop, fid, k["f"]["what"], k["n"], ", ".join(sorted(k["keys"])[:4])))
    nviol = 0
    for key, vs in sorted(unknown.items()):
        v = vs[0]
        rp = dict(v["replay"])
        rp.update({"property": prop, "seed": verdict.seed, "tier": verdict.tier, "key": key, "what": v["what"],
                   "detail": v["detail"], "occurrences": len(vs)})
        fn = os.path.join(rdir, "%s_%s_case%s.json" % (
            re.sub(r"[^A-Za-z0-9_.-]+", "_", key)[:100], verdict.seed, rp.get("case")))
        with open(fn, "w") as fh:
            json.dump(rp, fh, indent=1, default=str)
        print("VIOLATION property=%s replay=%s" % (prop, fn))
        print("  key=%s  %s  (%d occurrence(s))" % (key, v["what"], len(vs)))
        nviol += 1
    min_nt = getattr(mod, "MIN_NONTRIVIAL", {"quick": 2, "thorough": 2}).get(verdict.tier, 2)
    if len(verdict.signatures) < max(2, min_nt) and not getattr(verdict, "replay_mode", False):
        verdict.inconclusive.append("only %d distinct non-trivial signatures observed (minimum %d)" % (
            len(verdict.signatures), min_nt))
    # every registered threshold should have been exercised (a check nobody measured is not 'held')
    required = getattr(mod, "REQUIRED_CHECKS", None)
    if required is None:
        required = list(mod.THRESHOLDS.keys())
    if not getattr(verdict, "replay_mode", False):
        for name in required:
            if verdict.counts.get(name, 0) == 0:
                verdict.inconclusive.append("sub-check '%s' was never measured" % name)
    cov = {
        "evaluations": int(verdict.evaluations),
        "distinct_nontrivial": int(len(verdict.signatures)),
        "rule": verdict.rule or getattr(mod, "RULE", ""),
        "samples": verdict.samples[:5] if verdict.samples else [{"note": "no non-trivial sample"}],
        "sub_checks": {k: {"comparisons": verdict.counts.get(k, 0), "threshold": mod.THRESHOLDS.get(k),
                           "worst_value": (verdict.worst.get(k) or {}).get("value"),
                           "worst_over_threshold": (verdict.worst.get(k) or {}).get("ratio"),
                           "worst_case": (verdict.worst.get(k) or {}).get("case")}
                       for k in sorted(set(list(verdict.counts.keys()) + list(mod.THRESHOLDS.keys())))},
        "known_findings_hit": {fid: {"observations": k["n"], "keys": sorted(k["keys"])[:8]} for fid, k in known.items()},
        "inconclusive": verdict.inconclusive[:20],
        "exhaustive": False,
    }
    cov.update(verdict.extra)
    ev = {
        "property_id": prop, "tier": verdict.tier, "seed": int(verdict.seed), "level": verdict.level,
        "coverage": cov, "assumptions": verdict.assumptions or getattr(mod, "ASSUMPTIONS", []),
        "wall_s": round(time.time() - verdict.t0, 2), "violations": nviol,
    }
    if not getattr(verdict, "replay_mode", False):
        # evidence of a run against a scratch copy (VERIF_REPO set, self-test only) never replaces the real evidence
        edir = os.path.join(VERIF, "evidence") if os.path.realpath(REPO) == "/repo" else os.path.join(RUNS_ROOT, prop, "evidence-alt")
        os.makedirs(edir, exist_ok=True)
        tmp = os.path.join(edir, prop + ".json.tmp")
        with open(tmp, "w") as fh:
            json.dump(ev, fh, indent=1, default=str, allow_nan=False)
        os.replace(tmp, os.path.join(edir, prop + ".json"))
    if nviol:
        return 1
    if verdict.inconclusive:
        for m in verdict.inconclusive[:10]:
            log("INCONCLUSIVE property=%s: %s" % (prop, m))
        return 2
    log("[held] property=%s tier=%s seed=%s: %d evaluations, %d distinct non-trivial signatures, %d known-finding(s)" % (
        prop, verdict.tier, verdict.seed, verdict.evaluations, len(verdict.signatures), len(known)))
    return 0


def sanitize_json(o):
    """Replace NaN/inf floats (not allowed in strict JSON evidence) by strings."""
    if isinstance(o, float):
        if math.isnan(o) or math.isinf(o):
            return repr(o)
        return o
    if isinstance(o, dict):
        return {k: sanitize_json(v) for k, v in o.items()}
    if isinstance(o, (list, tuple)):
        return [sanitize_json(v) for v in o]
    if isinstance(o, set):
        return sorted(sanitize_json(v) for v in o)
    return o


def generic_run(mod, tier, seed, replay=None):
    verdict = Verdict(mod.ID, tier, seed)
    verdict.level = getattr(mod, "LEVEL", "exploration")
    stages = mod.stages(tier) if callable(getattr(mod, "stages", None)) else mod.STAGES
    by_name = {s.name: s for s in stages}
    outdir = os.path.join(RUNS_ROOT, mod.ID, "obs")
    if os.path.isdir(outdir):
        shutil.rmtree(outdir)
    os.makedirs(outdir, exist_ok=True)
    if replay is not None:
        verdict.replay_mode = True
        st = by_name.get(replay.get("stage"))
        if st is None:
            raise Inconclusive("replay file names unknown stage %r" % replay.get("stage"))
        res = run_stage(st, replay["seed"], replay.get("tier", tier), outdir, only_case=replay["case"])
        judge_observations(mod, verdict, res)
    else:
        for st in stages:
            res = run_stage(st, seed, tier, outdir)
            judge_observations(mod, verdict, res)
            post = getattr(mod, "post_stage", None)
            if post:
                post(st, res, verdict)
    if hasattr(mod, "finalize"):
        mod.finalize(verdict)
    # sanitize
    verdict.samples = sanitize_json(verdict.samples)
    verdict.worst = sanitize_json(verdict.worst)
    verdict.extra = sanitize_json(verdict.extra)
    for v in verdict.violations:
        v["detail"] = sanitize_json(v["detail"])
    return finish(mod, verdict, by_name)
