"""MANIFEST.setup_cmd: build every variant once (warms ccache) from /repo's working tree."""
import glob
import os
from . import core


def run():
    drivers = sorted(os.path.splitext(os.path.basename(p))[0]
                     for p in glob.glob(os.path.join(core.VERIF, "harness", "p*.cpp")))
    rc = 0
    for variant in ("plain", "asan"):
        try:
            core.build(variant, drivers + ["gmgpolar"])
        except core.Inconclusive as e:
            core.log("setup: %s" % e)
            rc = 2
    return rc
