"""MANIFEST.setup_cmd: build every variant once (warms ccache) from /repo's working tree."""
import glob
import os
from . import core

# which drivers each variant needs (plain/asan: everything)
VARIANT_TARGETS = {
    "tsan": ["p11_race"],
    "omp": ["p11_race", "p12_repro", "verif_jitter"],
    "init0": ["p20_options"],
    "initP": ["p20_options"],
}


def run():
    drivers = sorted(os.path.splitext(os.path.basename(p))[0]
                     for p in glob.glob(os.path.join(core.VERIF, "harness", "p*.cpp")))
    rc = 0
    plan = [("plain", drivers + ["gmgpolar"]), ("asan", drivers + ["gmgpolar"])] + list(VARIANT_TARGETS.items())
    for variant, targets in plan:
        try:
            core.build(variant, targets)
        except core.Inconclusive as e:
            core.log("setup: %s" % e)
            rc = 2
    return rc
