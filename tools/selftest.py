#!/usr/bin/env python3
"""Applies seeded changes (/verif/seeded/<id>/patch.diff) to a scratch worktree of /repo and runs checks against it.

  tools/selftest.py <seeded-id> [CHECK ...]     default checks: meta.json "property" (and "also_run")
Prints, per check: exit code and the violation keys. The scratch worktree lives at a fixed path (ccache hits) and is
removed afterwards together with its build output. Nothing is ever applied to /repo itself.
"""
import glob
import hashlib
import json
import os
import re
import shutil
import subprocess
import sys

VERIF = os.path.dirname(os.path.dirname(os.path.abspath(__file__)))
SCRATCH = "/tmp/verif_selftest_wt"


def sh(cmd, **kw):
    return subprocess.run(cmd, text=True, stdout=subprocess.PIPE, stderr=subprocess.STDOUT, **kw)


def clean():
    tag = hashlib.sha1(os.path.realpath(SCRATCH).encode()).hexdigest()[:8]
    for b in glob.glob(os.path.join(VERIF, ".build", "*-" + tag)):
        shutil.rmtree(b, ignore_errors=True)


def main():
    if sys.argv[1] == "--clean":
        clean()
        return 0
    sid = sys.argv[1]
    d = os.path.join(VERIF, "seeded", sid)
    meta = json.load(open(os.path.join(d, "meta.json")))
    checks = sys.argv[2:] or [meta["property"]] + meta.get("also_run", [])
    tier = os.environ.get("SELFTEST_TIER", "quick")
    sh(["git", "-C", "/repo", "worktree", "remove", "--force", SCRATCH])
    shutil.rmtree(SCRATCH, ignore_errors=True)
    r = sh(["git", "-C", "/repo", "worktree", "add", "--detach", SCRATCH, "HEAD"])
    if r.returncode != 0:
        print(r.stdout)
        return 2
    try:
        r = sh(["git", "-C", SCRATCH, "apply", os.path.join(d, "patch.diff")])
        if r.returncode != 0:
            print("patch does not apply:", r.stdout)
            return 2
        results = {}
        for c in checks:
            env = dict(os.environ)
            env["VERIF_REPO"] = SCRATCH
            r = sh([os.path.join(VERIF, "check"), c, "--tier", tier], env=env, cwd=VERIF)
            keys = re.findall(r"key=(\S+)", r.stdout)
            results[c] = {"exit": r.returncode, "violation_keys": keys[:12], "n_keys": len(keys)}
            print("%s %s: exit %d, %d violation key(s)%s" % (sid, c, r.returncode, len(keys), (": " + ", ".join(keys[:4])) if keys else ""))
        merged = {}
        try:
            merged = json.load(open(os.path.join(d, "selftest_result.json")))
        except Exception:
            pass
        merged.update(results)
        json.dump(merged, open(os.path.join(d, "selftest_result.json"), "w"), indent=1)
    finally:
        sh(["git", "-C", "/repo", "worktree", "remove", "--force", SCRATCH])
        shutil.rmtree(SCRATCH, ignore_errors=True)
        # the build output of the scratch path is kept between self-tests (incremental rebuilds) unless SELFTEST_CLEAN=1;
        # remove it with:  SELFTEST_CLEAN=1 tools/selftest.py --clean
        if os.environ.get("SELFTEST_CLEAN") == "1":
            clean()
    return 0


if __name__ == "__main__":
    sys.exit(main())
