#!/usr/bin/env python3
"""Prints the 'as built' markdown tables for DESIGN.md from the oracle modules and the current evidence files."""
import importlib, json, os, sys
HERE = os.path.dirname(os.path.dirname(os.path.abspath(__file__)))
sys.path.insert(0, HERE)
props = [json.loads(l)["id"] for l in open(os.path.join(HERE, "properties.jsonl"))]
print("| id | stages (driver / variant : quick / thorough cases) | sub-checks (threshold; worst observed / threshold in the committed evidence) |")
print("|---|---|---|")
for pid in props:
    mod = importlib.import_module("oracles." + pid.lower())
    stages = mod.stages("quick") if callable(getattr(mod, "stages", None)) else mod.STAGES
    st = "; ".join("%s/%s: %s/%s" % (s.driver, s.variant, s.cases.get("quick"), s.cases.get("thorough")) for s in stages)
    if len(st) > 260:
        st = st[:257] + "..."
    ev = {}
    try:
        ev = json.load(open(os.path.join(HERE, "evidence", pid + ".json")))["coverage"]["sub_checks"]
    except Exception:
        pass
    subs = []
    for k, t in mod.THRESHOLDS.items():
        w = (ev.get(k) or {}).get("worst_over_threshold")
        if t <= 0:
            wv = (ev.get(k) or {}).get("worst_value")
            subs.append("`%s` (%g%s)" % (k, t, "; worst value %.3g" % wv if isinstance(wv, (int, float)) else ""))
        else:
            subs.append("`%s` (%g%s)" % (k, t, "; %.2g" % w if isinstance(w, (int, float)) else ""))
    print("| %s | %s | %s |" % (pid, st, ", ".join(subs) if subs else "ThreadSanitizer reports (0 allowed), canary must be reported"))
