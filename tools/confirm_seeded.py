#!/usr/bin/env python3
"""Confirms a seeded change delivered by a sub-agent and files it under /verif/seeded/<id>/.

  tools/confirm_seeded.py <worktree> <n> <seeded-id> <property> [--args "demo args"] [--needs "what it needs to manifest"]

In the agent's scratch worktree (outside /repo and /verif; its _build holds the unchanged tree): builds and runs the
demonstration on the unchanged tree (must pass), applies patch.diff, rebuilds, runs the repository's unedited test suite
(must pass), rebuilds and runs the demonstration (must fail), reverts the worktree. Only then the change is copied to
/verif/seeded/<id>/ with a meta.json recording what was run and observed.
"""
import argparse
import glob
import json
import os
import shutil
import subprocess
import sys
import time

VERIF = os.path.dirname(os.path.dirname(os.path.abspath(__file__)))
ENV = dict(os.environ, OMP_WAIT_POLICY="passive", GOMP_SPINCOUNT="0")


def sh(cmd, cwd=None, timeout=3600):
    r = subprocess.run(cmd, shell=isinstance(cmd, str), cwd=cwd, env=ENV, text=True, stdout=subprocess.PIPE,
                       stderr=subprocess.STDOUT, timeout=timeout)
    return r.returncode, r.stdout


def main():
    ap = argparse.ArgumentParser()
    ap.add_argument("wt")
    ap.add_argument("n")
    ap.add_argument("sid")
    ap.add_argument("prop")
    ap.add_argument("--args", default="")
    ap.add_argument("--needs", default="")
    a = ap.parse_args()
    src = os.path.join(a.wt, "seeded_out", a.n)
    patch = os.path.join(src, "patch.diff")
    demo_bin = os.path.join(src, "demo_confirm")
    cpps = sorted(glob.glob(os.path.join(src, "*.cpp")))
    build_demo = "g++ -std=c++20 -O1 -fopenmp -DGMGPOLAR_VERIF -I%s/include -I%s %s %s/_build/libGMGPolarLib.a %s/_build/libPolarGrid.a %s/_build/libInputFunctions.a -o %s" % (
        a.wt, src, " ".join(cpps), a.wt, a.wt, a.wt, demo_bin)
    run_demo = "%s %s" % (demo_bin, a.args)
    log = {}
    rc, out = sh("git status --porcelain --untracked-files=no", cwd=a.wt)
    if out.strip():
        print("worktree not clean:", out)
        return 2
    rc, out = sh("git apply --check %s" % patch, cwd=a.wt)
    if rc != 0:
        print("patch does not apply:", out)
        return 2
    # unchanged tree
    rc, out = sh("cmake --build _build -j8", cwd=a.wt)
    if rc != 0:
        print("unchanged tree does not build:", out[-2000:])
        return 2
    rc, out = sh(build_demo, cwd=src)
    if rc != 0:
        print("demo does not build:", out[-3000:])
        return 2
    rc0, out0 = sh(run_demo, cwd=src)
    log["demo_unchanged"] = {"exit": rc0, "tail": out0[-1200:]}
    try:
        sh("git apply %s" % patch, cwd=a.wt)
        rc, out = sh("cmake --build _build -j8", cwd=a.wt)
        log["build_with_change"] = rc
        if rc != 0:
            print("changed tree does not build:", out[-3000:])
            return 2
        t0 = time.time()
        rc, out = sh("ctest --test-dir _build -j8 --timeout 900", cwd=a.wt)
        tail = [l for l in out.splitlines() if "tests passed" in l or "tests failed" in l]
        log["ctest_with_change"] = {"exit": rc, "summary": tail[-1] if tail else out[-300:], "wall_s": round(time.time() - t0, 1)}
        rc, out = sh(build_demo, cwd=src)
        if rc != 0:
            print("demo does not build on the changed tree:", out[-3000:])
            return 2
        rc1, out1 = sh(run_demo, cwd=src)
        log["demo_with_change"] = {"exit": rc1, "tail": out1[-1500:]}
    finally:
        sh("git checkout -- .", cwd=a.wt)
        sh("cmake --build _build -j8", cwd=a.wt)
    ok = rc0 == 0 and log.get("demo_with_change", {}).get("exit", 0) != 0 and log.get("ctest_with_change", {}).get("exit", 1) == 0
    print(json.dumps({"confirmed": ok, "demo_unchanged_exit": rc0, "demo_with_change_exit": log.get("demo_with_change", {}).get("exit"),
                      "ctest": log.get("ctest_with_change")}, indent=1))
    if not ok:
        return 1
    dst = os.path.join(VERIF, "seeded", a.sid)
    os.makedirs(dst, exist_ok=True)
    for f in glob.glob(os.path.join(src, "*")):
        if os.path.isfile(f) and not os.path.basename(f).startswith("demo_confirm") and os.path.basename(f) != "demo":
            shutil.copy(f, dst)
    files = [l.split(" b/")[-1] for l in open(patch) if l.startswith("diff --git")]
    meta = {
        "id": a.sid, "property": a.prop, "source": "fresh sub-agent given only the property text and a scratch worktree of /repo",
        "files_touched": files, "needs_to_manifest": a.needs,
        "confirmed_by_me": {
            "where": "scratch git worktree of /repo outside /repo and /verif (removed afterwards)",
            "demo_build": build_demo.replace(a.wt, "<worktree>"), "demo_run": run_demo.replace(a.wt, "<worktree>"),
            "demo_on_unchanged_tree": log["demo_unchanged"], "demo_with_change": log["demo_with_change"],
            "existing_tests_with_change": log["ctest_with_change"],
            "build": "cmake --build (Release, as configured by the repository) with the change applied: exit %s" % log["build_with_change"],
        },
    }
    json.dump(meta, open(os.path.join(dst, "meta.json"), "w"), indent=1)
    return 0


if __name__ == "__main__":
    sys.exit(main())
