#!/usr/bin/env python3
"""Regenerates the two generated tables of DESIGN.md (between BEGIN/END markers)."""
import os, re, subprocess, sys
HERE = os.path.dirname(os.path.dirname(os.path.abspath(__file__)))
p = os.path.join(HERE, "DESIGN.md")
s = open(p).read()
def gen(script):
    return subprocess.run([sys.executable, os.path.join(HERE, "tools", script)], text=True, stdout=subprocess.PIPE).stdout.strip()
for marker, script in (("SEEDED_TABLE", "seeded_table.py"), ("APPENDIX_TABLE", "design_tables.py")):
    block = "<!-- BEGIN %s -->\n%s\n<!-- END %s -->" % (marker, gen(script), marker)
    if marker + "_PLACEHOLDER" in s:
        s = s.replace(marker + "_PLACEHOLDER", block)
    else:
        s = re.sub(r"<!-- BEGIN %s -->.*?<!-- END %s -->" % (marker, marker), lambda m: block, s, flags=re.S)
open(p, "w").write(s)
print("DESIGN.md tables regenerated")
