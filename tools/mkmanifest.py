#!/usr/bin/env python3
"""Regenerates /verif/MANIFEST.json from the oracle modules (oracles/cNN.py).  Properties without a module (or whose
module sets CLAIMED=False) are listed under not_applicable with the module's / table's reason."""
import importlib
import json
import os
import subprocess
import sys

HERE = os.path.dirname(os.path.dirname(os.path.abspath(__file__)))
sys.path.insert(0, HERE)

NOT_YET = "check under construction in this round; not yet registered"
# only checks that have been run silently on the unchanged tree over several seeds are registered
REGISTERED = [l.strip() for l in open(os.path.join(HERE, "tools", "registered.txt")) if l.strip() and not l.startswith("#")]


def main():
    props = [json.loads(l) for l in open(os.path.join(HERE, "properties.jsonl"))]
    checks, na = [], []
    for p in props:
        pid = p["id"]
        try:
            mod = importlib.import_module("oracles." + pid.lower())
        except ImportError:
            na.append({"property_id": pid, "reason": NOT_YET})
            continue
        if pid not in REGISTERED:
            na.append({"property_id": pid, "reason": NOT_YET})
            continue
        if not getattr(mod, "CLAIMED", True):
            na.append({"property_id": pid, "reason": getattr(mod, "NA_REASON", NOT_YET)})
            continue
        checks.append({
            "property_id": pid,
            "quick_cmd": "./check %s --tier quick" % pid,
            "thorough_cmd": "./check %s --tier thorough" % pid,
            "evidence_file": "/verif/evidence/%s.json" % pid,
            "replay_cmd_template": "./check %s --replay {path}" % pid,
            "engine": "check",
            "level_claimed": {"category": getattr(mod, "LEVEL", "exploration"), "text": mod.LEVEL_TEXT,
                              "design_ref": getattr(mod, "DESIGN_REF", "DESIGN.md section 5, " + pid)},
            "level_note": mod.LEVEL_NOTE,
            "technique": mod.TECHNIQUE,
        })
    hooks_commits = subprocess.run(["git", "-C", "/repo", "log", "--format=%h", "--grep=^verif hook"], text=True,
                                   stdout=subprocess.PIPE).stdout.split()
    m = {
        "version": 1,
        "setup_cmd": "./check --setup",
        "hooks": {
            "guard": "GMGPOLAR_VERIF",
            "enable": "-DGMGPOLAR_VERIF, added by /verif/harness/CMakeLists.txt which pulls /repo's working tree in with "
                      "add_subdirectory (every check re-configures and rebuilds before running)",
            "baseline_off_cmd": "cmake --build /repo/_build -j16 && ctest --test-dir /repo/_build -j8 --timeout 900",
            "source_commits": hooks_commits,
            "add_only": True,
        },
        "engines": [{"name": "check", "path": "/verif/check",
                     "serves_properties": [c["property_id"] for c in checks],
                     "kind_free_text": "python runner: builds /repo's working tree in sanitizer/plain variants, runs C++ "
                                       "drivers (harness/) over generated cases in 16 processes, judges the observation "
                                       "log with per-property oracles (oracles/), matches known findings, writes evidence"}],
        "checks": checks,
        "not_applicable": na,
        "notes": "Technique family: runtime monitoring and sanitizers. See DESIGN.md. VERIF_SEED seeds all random choices; "
                 "exit 0 held / 1 VIOLATION / 2 inconclusive or harness failure.",
    }
    json.dump(m, open(os.path.join(HERE, "MANIFEST.json"), "w"), indent=1)
    print("MANIFEST: %d checks, %d not_applicable" % (len(checks), len(na)))


if __name__ == "__main__":
    main()
