#!/usr/bin/env python3
"""Prints the markdown table 'which checks catch which seeded change' from /verif/seeded/*/{meta,selftest_result}.json."""
import glob, json, os
HERE = os.path.dirname(os.path.dirname(os.path.abspath(__file__)))
print("| seeded change | property | needs, in order to manifest | checks run against it (quick tier): exit code, first violation key |")
print("|---|---|---|---|")
for d in sorted(glob.glob(os.path.join(HERE, "seeded", "*"))):
    try:
        m = json.load(open(os.path.join(d, "meta.json")))
    except Exception:
        continue
    res = {}
    try:
        res = json.load(open(os.path.join(d, "selftest_result.json")))
    except Exception:
        pass
    cells = []
    for c, r in res.items():
        k = r["violation_keys"][0] if r["violation_keys"] else ""
        if len(k) > 90:
            k = k[:87] + "..."
        cells.append("%s: %s%s" % (c, {0: "**missed** (exit 0)", 1: "caught", 2: "inconclusive"}.get(r["exit"], str(r["exit"])),
                                  (" `" + k + "`") if k else ""))
    print("| %s | %s | %s | %s |" % (m["id"], m["property"], m.get("needs_to_manifest", ""), "; ".join(cells) or "(not run yet)"))
