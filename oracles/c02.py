"""C02: second-order accuracy; implicit extrapolation raises the order."""
from vlib.core import Stage

ID = "C02"
STAGES = [Stage("order", "p02_order", "plain", {"quick": 32, "thorough": 504}, timeout_per_case=900, chunk=1)]
# values are NEGATIVE estimated orders p = log2(e_k / e_{k+1}) (so "value > threshold" means "order too low")
THRESHOLDS = {
    "neg_order_plain_l2": -1.7,           # observed 1.93 .. 2.06
    "neg_order_plain_inf": -1.6,          # observed 1.80 .. 2.06
    "neg_order_extrapolated_l2": -3.0,    # observed 3.40 .. 5.5
    "neg_order_extrapolated_inf": -2.5,   # observed 2.76 .. 4.3 (pre-asymptotic on 33x64 -> 65x128; a broken extrapolation gives 2.0)
    "extrapolated_over_plain_error_l2": 0.75,   # observed <= 0.13
    "extrapolated_over_plain_error_inf": 0.75,  # observed <= 0.31
}
MIN_NONTRIVIAL = {"quick": 20, "thorough": 200}   # at most 3*3*7*2*2 = 252 signatures exist


def post_stage(stage, res, verdict):
    nj = sum(1 for o in res["obs"] if o.get("nontrivial"))
    verdict.extra["chains_judged"] = nj
    verdict.extra["chains_not_judged_algebraic_error_not_negligible"] = len(res["obs"]) - nj


RULE = ("case index enumerates the 3 geometries x 3 smooth problems x 7 profiles x 2 boundary modes = 126 tuples (thorough: 4 passes "
        "with different strategy / caches / cycle / R0 / anisotropy / hierarchy depth (maxLevels -1, 2, 3) draws; quick: 32 of them selected by VERIF_SEED via the index "
        "offset); each chain solves divideBy2 = 0..2 (quick) / 0..3 (thorough) with and without implicit extrapolation to a relative "
        "residual of 1e-10; errors are computed by the harness from solution() and the ExactSolution class; a pair is judged when its "
        "finer grid is >= 65 x 128 and the algebraic error is negligible (error unchanged to 1% under a 100x looser tolerance); "
        "signature = (geometry, problem, profile, DirBC, strategy); across-origin runs use R0 <= 1e-5 (the closure is a discretisation for R0 -> 0)")
ASSUMPTIONS = ["orders are estimated from two or three successive grids: thresholds sit 0.2-0.5 below the smallest order seen on the unchanged tree and >= 0.5 above what a first/second-order scheme produces",
               "ExactSolution classes are trusted as the PDE solution (their consistency with the source terms is C19)"]
TECHNIQUE = "runtime monitor of convergence order: refinement chains through the public API, discretisation errors recomputed by the harness, estimated orders and extrapolated-vs-plain accuracy judged against calibrated thresholds"
LEVEL_TEXT = ("sampled executions judged by an oracle: every shipped smooth (geometry, problem, profile, boundary) tuple on refinement chains "
              "up to 65x128 (quick, subset) / 129x256 (thorough, all 126 x 4 draws); plain order >= 1.7/1.6, extrapolated order >= 3.0 "
              "(weighted Euclidean) / 2.5 (max), extrapolated error < 0.75 x plain error on resolving grids")
LEVEL_NOTE = ("an order is an asymptotic notion; three or four grids give estimates with ~0.2 uncertainty, so 'better than third order' is "
              "held to 'clearly above second and consistent with third'; the three inconsistent Poisson-Czarny source terms are a recorded finding")
