"""C18: generated grids are valid, nested and coarsenable; grid files round-trip; rejected inputs raise exceptions."""
import os
import shutil

from vlib import core
from vlib.core import Stage

ID = "C18"
# grid files written/damaged by the cases; one directory per runner process so that concurrent runs do not collide
_SCRATCH = os.path.join(core.RUNS_ROOT, ID, "files-%d" % os.getpid())
STAGES = [
    # the deciding variant: ASan + UBSan + float-cast-overflow, assertions on
    Stage("gridgen-asan", "p18_gridgen", "asan", {"quick": 900, "thorough": 40000},
          args={"scratch": _SCRATCH, "setup_nodes": 2500}, timeout_per_case=120.0),
    # -O2 build, assertions on: other code generation, larger setup() grids
    Stage("gridgen-plain", "p18_gridgen", "plain", {"quick": 300, "thorough": 20000},
          args={"scratch": _SCRATCH, "setup_nodes": 5000}, timeout_per_case=120.0, offset=10000000,
          # glibc heap consistency checks: a write before/after a heap block aborts at the next free() of that block
          # instead of corrupting the measuring process silently
          env={"MALLOC_CHECK_": "3", "MALLOC_PERTURB_": "165"}),
    # grids LOADED from files with ntheta not a power of two (12, 20, 28, 40, 56, ...): the level count setup() reports must be
    # admitted by the grid (added after the seeded change C18-b slipped through: generated grids are always 2^k in theta)
    Stage("loaded-levels-asan", "p18b_loaded_levels", "asan", {"quick": 150, "thorough": 3000},
          args={"scratch": os.path.join(_SCRATCH, "loaded")}, timeout_per_case=120.0, offset=20000000),
    Stage("loaded-levels-plain", "p18b_loaded_levels", "plain", {"quick": 150, "thorough": 3000},
          args={"scratch": os.path.join(_SCRATCH, "loaded")}, timeout_per_case=120.0, offset=30000000),
]

# Numerical sub-checks are multiples of the unit round-off (2^-52) of the magnitude of the compared quantity.
THRESHOLDS = {
    # --- outcome of a call into the grid code, observed from outside (forked child): 1 = died (assert/sanitizer/signal)
    "no_crash": 0.5,
    "rejection_is_std_exception": 0.5,
    "measurement_completed": 0.5,            # 1 = a call that returned in the probe child threw when repeated / later call threw
    # --- accepted tuple: validity (booleans exact)
    "sizes_consistent": 0.5,
    "radii_strictly_increasing": 0.5,
    "radii_endpoints_exact": 0.5,            # radii.front() == R0 and radii.back() == Rmax, bit for bit
    "angles_uniform": 256.0,                 # |theta_j - 2 pi j/ntheta| / (eps 2 pi)
    "angles_antipodal": 256.0,               # |theta_{j+ntheta/2} - theta_j - pi| / (eps 2 pi); ntheta odd -> 1e300
    "fine_nodes_are_midpoints": 256.0,       # |x_m - (x_{m-s}+x_{m+s})/2| / (eps |x_{m+s}|), every refinement level
    "nested_sizes": 0.5,
    "nested_values": 256.0,                  # |grid(k+1)[2i] - grid(k)[i]| / (eps |x|)
    # --- level count
    "reported_levels_admissible": 0.5,
    "coarse_level_is_subgrid": 0.5,
    "level_cap_respected": 0.5,
    "setup_levels_consistent": 0.5,
    "setup_grid_matches_ctor": 0.5,
    # --- files
    "roundtrip_loads": 0.5,
    "roundtrip_same_shape": 0.5,
    "roundtrip_excess_error": 64.0,           # (|loaded - written| - 0.5*10^-precision)_+ / (eps max(|x|, 10^-precision))
    "damaged_file_grid_is_valid": 0.5,
    # --- stage loaded-levels
    "loaded_grid_setup_succeeds": 0.5,        # a loaded grid that admits >= 2 levels is accepted by setup()
    "too_few_levels_rejected": 0.5,
    "levels_meet_minimal_sizes": 0.5,
    "loaded_grid_matches_written": 1e-14,   # absolute difference (18 fixed decimals written; values <= 2 pi)
    "solve_on_loaded_grid_finite": 0.5,
}
MIN_NONTRIVIAL = {"quick": 150, "thorough": 400}
RULE = ("one case = one tuple from VERIF_SEED: Rmax in {1, 1.3, 2} or log-uniform 0.05..50, R0 = 1e-5 / (1e-8..0.95)*Rmax "
        "(3% invalid: R0 >= Rmax, R0 <= 0, R0 ~ Rmax), nr_exp 0..8, ntheta_exp -1..9, anisotropic_factor -1..7, divideBy2 0..3 "
        "(30% of the cases from a small range so that GMGPolar::setup() is run), maxLevels -1..8, refinement radius in 8 "
        "position classes (0 = command-line default, below R0, at R0, near R0, inside, near Rmax, at Rmax, above Rmax), "
        "write precision 3..18, one of 19 kinds of file damage on the radii or angles file; signature = (nr_exp, "
        "anisotropic_factor, divideBy2, refinement-radius class [n-a when anisotropic_factor = 0], outcome); a case is "
        "non-trivial iff the tuple was accepted, i.e. a grid was generated and every validity sub-check was measured on it; "
        "distinct_nontrivial counts distinct signatures of such cases")
ASSUMPTIONS = [
    "minimal size of a multigrid level: nr >= 5 (2 smoother circles + 3 radial nodes), ntheta >= 4 and even",
    "a call that returned in a forked child returns the same result when repeated in the measuring process (deterministic code)",
    "both build variants keep assertions on: reads/writes out of bounds that an assertion intercepts first are reported as the assertion",
    "a written file must load again only if precision >= 15 and the written decimals still separate all nodes (otherwise an exception is a valid outcome)",
    "a grid accepted from a damaged file is judged with loose tolerances (1e-9) on first/last angle and antipodal partners",
    "sampling: tuples and file damages not generated are not covered; no system-call fault injection (EACCES/EIO) beyond a directory in place of a file",
]
TECHNIQUE = ("runtime monitor on generated parameter tuples, ASan/UBSan/float-cast-overflow build (assertions on) plus an -O2 build "
             "under glibc heap checking: a supervisor process forks one measuring process per tuple; inside it every constructor / "
             "loader call is first observed in a forked probe (returns, throws, or dies), accepted grids are measured against "
             "independent long-double references (uniform angles, antipodal pairs, midpoints, nesting with divideBy2+1, coarsening "
             "chain for the level count of setup()); files are written, reloaded and damaged in 19 ways")
LEVEL_TEXT = ("sampled executions judged by an oracle: 1 200 (quick) / 60 000 (thorough) parameter tuples over the whole stated "
              "range incl. out-of-range refinement radii; every node of every accepted grid compared (thresholds 256 and 64 "
              "unit round-offs, observed <= 1.0 and <= 0.5); setup() level count reproduced by coarsening; write/load round trip "
              "at precisions 3..18 and 19 kinds of damaged files; death of any call is an observation attributed to the tuple")
LEVEL_NOTE = ("covers only generated tuples; memory errors are seen only where ASan red zones, assertions or glibc heap checks "
              "catch them; the level rule is checked for admissibility and the cap, not for maximality; setup() itself is run "
              "only on grids up to 2 500 (asan) / 5 000 (plain) nodes, larger grids use the private level rule through the "
              "friend accessor; no system-call fault injection")

def finalize(verdict):
    # scratch grid files of cases whose process died before it could remove them
    shutil.rmtree(_SCRATCH, ignore_errors=True)
