"""C04: the coarse-grid direct solve inverts exactly the operator the residual applies."""
from vlib.core import Stage

ID = "C04"
STAGES = [
    Stage("directsolve", "p04_directsolve", "plain", {"quick": 150, "thorough": 6000}, timeout_per_case=120),
    Stage("directsolve-asan", "p04_directsolve", "asan", {"quick": 24, "thorough": 600}, offset=1000000, timeout_per_case=300),
    Stage("directsolve-thread-limit", "p04_directsolve", "plain", {"quick": 40, "thorough": 1000}, offset=2000000, timeout_per_case=120, env={"OMP_THREAD_LIMIT": "2"}),
]
THRESHOLDS = {
    "copied_solver_identical": 0.5,             # copy-constructed direct solver: same bits as the original
    "level_solver_equals_direct_solver": 1e-7,  # Level::initializeDirectSolver (other boundary mode first) vs the directly built solver, / |x| / max(1, 1e-3 Rmax/R0)
    # |b - A x|_i / (sum_j |A_ij| * ||x||_inf + |b_i|): row-normwise backward error
    "residual_rownorm_reference": 1e-11,
    "residual_rownorm_give_operator": 1e-11,
    "residual_rownorm_take_operator": 1e-11,
    # |b - A x|_i / (sum_j |A_ij||x_j| + |b_i|), only for right-hand sides without a huge dynamic range
    "residual_componentwise_reference": 1e-11,
    # forward errors, judged only on mild meshes (spacing ratios <= 100, R0 >= 0.05 Rmax); conditioning-bound
    "give_vs_take_solution": 1e-7,
    "recovers_known_solution": 1e-7,
    "repeat_solve_identical": 0.5,
    "solution_finite": 0.5,
}
MIN_NONTRIVIAL = {"quick": 60, "thorough": 400}
RULE = ("case = random admissible grid from the smallest the hierarchy produces (5x4) to 65x128, random geometry (15% mirrored, det DF < 0)/profile, "
        "DirBC, rhs kind (random, 10^U[-8,8], unit vector, consistent A x*, consistent with wide x*), assembly threads in "
        "{1,2,3,5,16}, give cache combination; signature = (nr class, ntheta mod 3, circles mod 3, DirBC, threads, rhs kind, "
        "geometry); non-trivial = >= 20 unknowns and b != 0")
ASSUMPTIONS = ["reference stencil of ref_operator.h is the documented operator", "LU without pivoting has no growth on these matrices (observed)"]
TECHNIQUE = "runtime monitor: solveInPlace output fed to an independent long-double reference operator and to both library residuals; ASan/UBSan replay"
LEVEL_TEXT = ("sampled executions judged by an oracle: generated grids (5x4..65x128), geometries, right-hand sides incl. huge dynamic "
              "range and unit vectors, 1..16 assembly threads; every row's backward error must be rounding-small (1e-11 of the row "
              "scale, observed 1e-14) against the reference operator and against both residual implementations; give and take solutions compared")
LEVEL_NOTE = "trusts the harness reference stencil; sampling only; errors below 1e-11 of the row scale are invisible"
