"""C14: tridiagonal line solvers solve every SPD system, every time.

Driver harness/p14_tridiag.cpp (+ harness/common/c14_ref.h).  One case = one input class; `reps` systems are drawn from
it, each handed to a fresh SymmetricTridiagonalSolver<double> / DiagonalSolver<double>, solved for 1..4 right-hand sides
and re-solved 1..4 times.  All residuals are formed in long double from the ORIGINAL entries (the solver factorises its
copy in place) and recorded as multiples of a computed magnitude; this module only compares them with thresholds.
"""
from vlib.core import Stage

ID = "C14"
AMP_CAP = 1e4   # cyclic solves whose Sherman-Morrison error scale exceeds AMP_CAP x (|A||x|+|b|) are counted, not judged normwise



def stages(tier):
    """cases x reps systems per stage: quick 3000x8 + 400x4 (asan), thorough 60000x50 + 5000x10 (asan)."""
    q = tier != "thorough"
    return [
        Stage("solve", "p14_tridiag", "plain", {"quick": 3000, "thorough": 60000},
              args={"reps": 8 if q else 50, "amp_cap": AMP_CAP}),
        Stage("solve-asan", "p14_tridiag", "asan", {"quick": 400, "thorough": 5000},
              args={"reps": 4 if q else 10, "amp_cap": AMP_CAP}, offset=10000000),
    ]


STAGES = stages("quick")


# All residual values are multiples of the stated magnitude; unit round-off is 1.1e-16.  Largest values seen on the
# unchanged tree (quick seeds 1..5, thorough seeds 1,2) are given with each threshold; every threshold is >= 100x above.
THRESHOLDS = {
    # non-cyclic: ||Ax-b||inf / (||A||inf ||x||inf + ||b||inf); LDL^T of an SPD tridiagonal matrix is backward stable.
    "tri_residual_norm": 1e-13,       # observed <= 1.8e-16
    # non-cyclic, row by row: |Ax-b|_i / ((|A||x|)_i + |b_i|).  For SPD tridiagonal A, |L||D||L^T| = |A| (Higham, ASNA
    # Thm 9.12/9.14), so the factorisation is componentwise backward stable; this is the scale-invariant form of the same
    # statement and the one that still sees the small rows of a D A D scaled system.
    "tri_residual_rowwise": 1e-13,    # observed <= 3.0e-16
    # cyclic, row by row against the a-priori error scale S of a Sherman-Morrison solve (c14_ref.h: sm_scale), which is
    # (|A|+|B|)(|y|+|f||q|) + |b| + |u|(...) from long-double solves with B; S >= |A||x|+|b| and equals it up to the
    # logged factor amp when y and f q do not cancel.
    "cyc_residual_sm": 1e-13,         # observed <= 1.8e-16
    # cyclic, normwise backward error ||Ax-b|| / (||A|| ||x|| + ||b||) divided by max(1, amp), amp = ||S|| / (||A|| ||x_ref|| + ||b||)
    # measured per solve; judged for amp <= AMP_CAP, solves beyond are counted (coverage.cyclic_solves_beyond_amp_cap).
    "cyc_residual_norm": 1e-13,       # observed <= 1.5e-16 (raw backward error <= 1.1e-14 at amp <= 330)
    # DiagonalSolver: |d_i x_i - b_i| / (|d_i x_i| + |b_i|); one correctly rounded division gives <= 5.6e-17.
    "diag_residual": 1e-14,           # observed 5.55e-17 (= u/2, attained)
    # same object, same right-hand side (directly after the factorising solve, or after solves with other right-hand
    # sides; temp storage poisoned with NaN / garbage / left-overs): the returned vectors are bit-identical.
    "repeat_identical": 0.5,
}
MIN_NONTRIVIAL = {"quick": 150, "thorough": 250}

RULE = ("cases drawn from VERIF_SEED; a case fixes (cyclic?, n class in {2,3,4,5,6-32,33-300,10000}, generator) and draws `reps` "
        "systems from it; the cyclic flag is set before the entries, after them, not at all (cyclic is the default) or re-asserted before every solve. Generators: strictly diagonally dominant with random/negative/positive signs and margins 1e-4..10; "
        "L D L^T-generated SPD (cyclic: corner with its PSD rank-one completion, or bare corner shrunk until the long-double "
        "reference factorisation is positive); some/all sub-diagonals and/or the corner zero; symmetric scalings D A D with "
        "d_i in 10^[-E,E], E=1..5 (random, ramp, powers of two); line matrices of the documented stencil on generated "
        "grids/geometries (circle lines cyclic, radial lines with Dirichlet end, R0 down to 1e-8); ill-conditioned (shifted "
        "periodic Laplacians, bare corner at the SPD boundary, pivot ratio down to 1e-9); a fixed list for n=2,3,4,5 incl. "
        "n=2 sub-diagonal/corner overlap and one strictly diagonally dominant 2x2 system scaled by 1e-10; DiagonalSolver. Right-hand sides: uniform, 1e-6..1e6, spikes, A*x, zero. "
        "signature = (cyclic, n class, generator, scaling decade = round(0.5*log10(max a_ii / min a_ii)) measured over the "
        "case); non-trivial = at least one system of the case with a non-zero sub-diagonal or corner element was solved")
ASSUMPTIONS = [
    "the cyclic n=2 matrix is [[d0, s0+c],[s0+c, d1]] (sub-diagonal and corner occupy the same position), magnitude |s0|+|c|",
    "inputs are SPD as certified by a long-double bordered LDL^T of the original entries (positive pivots); systems failing that are counted (coverage.generated_not_spd) and not run",
    "componentwise residuals carry an underflow floor 64*DBL_MIN*(1+sum_j|a_ij|)/min pivot ratio (cyclic: times 1+|f|, f the Sherman-Morrison factor): errors of a few denormal ulps in intermediates (solutions decaying below 2.2e-308 away from a spike of b) are invisible",
    "cyclic solves are judged against the error scale of a Sherman-Morrison solve (measured excess over |A||x|+|b| logged as amp, at most AMP_CAP); an algorithm-independent bound is only claimed where amp is O(1)",
    "stencil-line matrices are rebuilt from the harness reference stencil (agreement with the library's operator is C03's subject); the smoothers' own solver objects are private and not harvested",
    "sampling: entry patterns, dimensions (other than 2..300 and 10000) and solve histories not generated are not covered",
]
TECHNIQUE = ("runtime monitor with a long-double residual oracle: generated SPD (cyclic) tridiagonal systems are solved by the "
             "real SymmetricTridiagonalSolver / DiagonalSolver (first solve = in-place LDL^T, later solves = substitution only), "
             "A x - b is formed in long double from the original entries and scaled by computed magnitudes; repeated solves "
             "compared bit for bit; ASan/UBSan replay")
LEVEL_TEXT = ("sampled executions judged by an oracle: 25 600 (quick) to 3 050 000 (thorough) generated systems, each with 1-4 "
              "right-hand sides and 1-4 repeated solves; normwise and row-wise residuals against thresholds of 1e-13 "
              "(observed <= 3e-16), bit-identity of repeated solves; a sanitizer build runs a further subset")
LEVEL_NOTE = ("covers only generated inputs; backward errors below 1e-13 are invisible; cyclic systems are judged relative to "
              "the inherent error scale of the Sherman-Morrison formula (observed excess over |A||x|+|b| <= 330x, raw normwise "
              "backward error observed <= 1.1e-14); assertion aborts of the assert-enabled build are reported as crashes with "
              "the input class in the key")

_TOTALS = ("systems", "solves", "resolves", "nontrivial_systems", "cyc_beyond_cap", "not_spd", "pivot_below_equals_tol")


def post_stage(stage, res, verdict):
    x = verdict.extra
    # a case that dies takes its observation (and its counters) with it: count the labelled aborts from the crash records
    for c in res["crashes"]:
        if "pivot-below-equals-tolerance" in ((c.get("pre") or {}).get("class") or ""):
            x["aborts_with_pivot_below_equals_tolerance"] = x.get("aborts_with_pivot_below_equals_tolerance", 0) + 1
    for o in res["obs"]:
        info = o.get("info") or {}
        for k in _TOTALS:
            x["n_" + k] = x.get("n_" + k, 0) + int(info.get(k, 0))
        for k in ("amp_max", "cyc_eta_unscaled_max", "forward_error_max"):
            v = info.get(k)
            if isinstance(v, (int, float)) and v == v:
                x[k] = max(x.get(k, 0.0), v)
        for k, name in (("piv_rel_min", "pivot_ratio_min"), ("tau_min", "sherman_morrison_denominator_min")):
            v = info.get(k)
            if isinstance(v, (int, float)) and v == v:
                x[name] = min(x.get(name, 1.0), v)


def finalize(verdict):
    x = verdict.extra
    out = {
        "systems_solved": x.pop("n_systems", 0) - x.get("n_not_spd", 0),
        "first_and_other_rhs_solves": x.pop("n_solves", 0),
        "repeated_solves": x.pop("n_resolves", 0),
        "systems_with_nonzero_offdiagonal": x.pop("n_nontrivial_systems", 0),
        "cyclic_solves_beyond_amp_cap": x.pop("n_cyc_beyond_cap", 0),
        "generated_not_spd": x.pop("n_not_spd", 0),
        "survived_systems_with_pivot_below_equals_tolerance": x.pop("n_pivot_below_equals_tol", 0),
        "amp_cap": AMP_CAP,
    }
    x.update(out)
    if getattr(verdict, "replay_mode", False):
        return
    gen = out["systems_solved"] + out["generated_not_spd"]
    if gen and out["generated_not_spd"] > 0.01 * gen:
        verdict.inconclusive.append("%d of %d generated systems were not SPD (generator fault)" % (out["generated_not_spd"], gen))
    cyc = verdict.counts.get("cyc_residual_sm", 0)
    if cyc and out["cyclic_solves_beyond_amp_cap"] > 0.05 * cyc:
        verdict.inconclusive.append("%d of %d cyclic solves beyond the amplification cap: normwise check lacks coverage" % (
            out["cyclic_solves_beyond_amp_cap"], cyc))
