"""C10: each multigrid cycle is a consistent correction scheme."""
from vlib.core import Stage

ID = "C10"
STAGES = [
    Stage("cycles", "p10_cycles", "plain", {"quick": 150, "thorough": 10000}, timeout_per_case=180),
    Stage("cycles-asan", "p10_cycles", "asan", {"quick": 24, "thorough": 500}, offset=1000000, timeout_per_case=400),
    # a one-thread team although the solver asks for more (thread limit, or a solver driven from inside a parallel region)
    Stage("cycles-thread-limit", "p10_cycles", "plain", {"quick": 60, "thorough": 1500}, offset=2000000, timeout_per_case=180, env={"OMP_THREAD_LIMIT": "1"}, args={"threads": "multi"}),
]
THRESHOLDS = {
    "cycle_vs_reference_recursion": 1e-12,      # ||u_lib - u_ref||_inf / max(||u_ref||_inf, 1); observed: bit-exact (0)
    "cycle_result_finite": 0.5,
    "rhs_unchanged_by_cycle": 0.5,
    "independent_of_scratch_contents": 0.5,     # bit-identical output for different garbage in all work vectors (1 thread)
    "exact_solution_fixed_point": 1e-10,        # ||cycle(x*) - x*|| / ||x*|| / max(1, 1e-3 Rmax/R0)
    "two_level_coarse_grid_correction": 1e-10,  # vs u + P A_c^-1 R (f - A u) built from reference operators
}
MIN_NONTRIVIAL = {"quick": 60, "thorough": 500}


def post_stage(stage, res, verdict):
    n = sum(1 for o in res["obs"] if (o.get("info") or {}).get("bit_exact_agreement_with_reference"))
    verdict.extra["bit_exact_agreements_with_reference_" + stage.name] = n


RULE = ("case = random solver configuration (3 geometries x 4 problems x 7 profiles, R0 in {1e-8..0.1}, 9x8..65x128 grids, "
        "anisotropy, DirBC, give (4 cache modes)/take, extrapolation 0/1/2/3, maxLevels, pre/post in 0..3, FMG on/off, 1 or 3 "
        "threads) x cycle type V/W/F x start iterate (random, zero, exact discrete solution, 10^U[-6,6]) x scratch pollution "
        "(zeros, +-1e3 garbage, 1e-8..1e8) x start depth; signature = (cycle, extrapolated, levels, depth, pre, post, strategy, "
        "DirBC, start, scratch, full-grid-smoothing flag); non-trivial = the cycle changed the iterate (or started from the exact solution)")
ASSUMPTIONS = ["the reference recursion uses the public operators of the Level objects built by setup(); those operators are validated by C03-C08",
               "guarded friend accessor (GMGPOLAR_VERIF) used to call exactly one private cycle function"]
TECHNIQUE = "reference-model runtime monitor: one private cycle (via the guarded accessor) vs a textbook recursion over public operators with fresh buffers, polluted scratch vectors, fixed-point and two-level algebraic checks; ASan/UBSan replay"
LEVEL_TEXT = ("sampled executions judged by an oracle: generated configurations x V/W/F x extrapolation x levels x smoothing counts; the "
              "library cycle must equal the reference recursion (threshold 1e-12, observed bit-exact), be independent of scratch "
              "contents bit for bit, keep the exact solution fixed and equal the algebraic coarse-grid correction without smoothing")
LEVEL_NOTE = "trusts the level operators (checked by C03-C08) and the harness recursion; sampling only"
