"""C01: solve() converges, and a reported convergence is true."""
from vlib.core import Stage

ID = "C01"
STAGES = [
    Stage("solve", "p01_solve", "plain", {"quick": 96, "thorough": 3000}, timeout_per_case=300),
    # the same generator under ASan + UBSan (other case indices): the whole setup/solve path incl. the command-line route
    Stage("solve-asan", "p01_solve", "asan", {"quick": 16, "thorough": 300}, offset=1000000, timeout_per_case=900),
    # the recorded configuration of the open finding F16 (fixed options): reproduces it on every run
    Stage("f16-witness", "p01_solve", "plain", {"quick": 1, "thorough": 1}, args={"witness": "F16"}, offset=9000000, timeout_per_case=300),
]
THRESHOLDS = {
    "solution_finite": 0.5,
    "converged_within_budget": 0.5,        # iterations < maxIterations (150) inside the stated configuration set
    "mean_reduction_factor": 0.999,        # reported factor strictly below one
    # min(rel_indep/rel_tol, abs_indep/abs_tol): the independently recomputed (extrapolated) residual norm must meet the tolerance
    # the library claims to have met; 1 + slack for the rounding of a residual that is 1e-8..1e-10 of |A||u|
    "stop_is_true": 1.01,
    "reported_factor_vs_independent": 1e-3,
}
MIN_NONTRIVIAL = {"quick": 60, "thorough": 1000}


def post_stage(stage, res, verdict):
    its = [(o.get("info") or {}).get("iterations", 0) for o in res["obs"] if (o.get("info") or {}).get("in_rate_set")]
    if its:
        verdict.extra["max_iterations_seen_in_rate_set"] = max(its)
    verdict.extra["early_stops"] = sum(1 for o in res["obs"] if (o.get("info") or {}).get("early_stop"))


RULE = ("case = random configuration from the stated set: 3 geometries x {CartesianR2, CartesianR6, PolarR6, Refined} x 7 profiles, R0 in "
        "{1e-8,1e-5,1e-3,0.1}, DirBC, take / give x 4 cache modes, extrapolation {0,1,3,(2)}, V/W/F, FMG off/on x cycle x 0..3 "
        "iterations, pre/post in 1..3, maxLevels {-1,2,3}, 3 norms, tolerances {both, rel only, abs only, 1e-10}, 17x32..65x128 (129x256 "
        "thorough), anisotropic 0/2/3 with the documented jump radius, 1 or 4 threads, CLI route or pointer route (20% of the pointer-route cases judge the second solve() on the object, after a first one with other solve-time options); one fixed witness case of F16; 15% smaller grids and "
        "extrapolation 2 are judged on 'a reported stop is true' only; signature = (geometry, problem, profile, DirBC, strategy+cache, "
        "extrapolation, cycle, FMG cfg, levels, norm); non-trivial = >= 2 iterations and non-zero initial residual")
ASSUMPTIONS = ["independent stop quantity: reference stencil + own discretised rhs + own every-second-node coarse grid",
               "rounding of a converged residual allows 1% slack on the tolerance (one skipped iteration changes it by >= 30%)"]
TECHNIQUE = "runtime monitor over the option space: iteration budget / reduction factor observed, and the stop quantity recomputed independently (reference operator, own rhs, own coarse grid, extrapolated combination) from solution() and grid(); ASan/UBSan replay of the same generator"
LEVEL_TEXT = ("sampled executions judged by an oracle: ~100 (quick) / 3000 (thorough) configurations through the public API and the CLI "
              "parser; convergence within 150 iterations with factor < 1, and the residual recomputed independently must meet the tolerance "
              "whenever the solver stopped early")
LEVEL_NOTE = "convergence is checked against the iteration budget, not proved; sampling of the option space"
