"""C11: no data race in any parallel region, for any thread count or schedule (ThreadSanitizer + Archer)."""
import glob
import json
import os
import re
import shutil

from vlib import core
from vlib.core import Stage

ID = "C11"
LOGDIR = os.path.join(core.RUNS_ROOT, "C11", "tsan")
TRACE = os.path.join(core.RUNS_ROOT, "C11", "ompt_trace.jsonl")
ARCHER = "/usr/lib/llvm-14/lib/libarcher.so"


def stages(tier):
    tsan_env = {
        "OMP_TOOL_LIBRARIES": ARCHER,
        "KMP_BLOCKTIME": "0",
        # NEVER ignore_noninstrumented_modules=1: it hides every race inside a parallel region (outlined functions are
        # called from libomp). halt_on_error=0 / exitcode=0: all reports of a process are collected from its log file.
        "TSAN_OPTIONS": "halt_on_error=0 exitcode=0 second_deadlock_stack=0 history_size=4 suppressions=%s" % (
            os.path.join(core.VERIF, "harness", "tsan.supp")),
    }
    trace_env = {"OMP_TOOL_LIBRARIES": "{bdir}/libverif_jitter.so", "VERIF_JITTER_US": "0", "VERIF_OMPT_TRACE": TRACE, "KMP_BLOCKTIME": "0"}
    return [
        Stage("tsan-archer", "p11_race", "tsan", {"quick": 400, "thorough": 4000}, env=tsan_env, args={"tsan_log_dir": LOGDIR}, chunk=1,
              timeout_per_case=600),
        # the same workload on the uninstrumented libomp build with the OMPT tracing tool: which parallel regions ran, with which team sizes
        Stage("ompt-trace", "p11_race", "omp", {"quick": 200, "thorough": 600}, env=trace_env, extra_targets=["verif_jitter"], chunk=1,
              timeout_per_case=600),
    ]



# parallel regions no execution of this build can reach (read from the sources; evidence annotation only)
_UNREACHABLE = [
    ("src/DirectSolver/DirectSolverGive/", "MUMPS build only"),
    ("src/DirectSolver/DirectSolverTake/", "MUMPS build only"),
    ("include/LinearAlgebra/coo_matrix.h", "COO matrices are only built for MUMPS"),
    ("task_parallelization.cpp", "private alternative sweep, never called"),
    ("culhamGeometry.inl", "CulhamGeometry::my_sum is never called"),
]


def _unreachable(rel):
    for pat, why in _UNREACHABLE:
        if pat in rel:
            return " [%s]" % why
    return ""


def _source_site_coverage(regions, stage):
    """Maps the code addresses of the traced parallel regions back to `#pragma omp parallel` sites of the repository's
    sources (a region with an `if` clause has two addresses: the forking and the serialised path)."""
    import re
    import subprocess
    sites = {}
    for sub in ("src", "include"):
        for root, _, files in os.walk(os.path.join(core.REPO, sub)):
            for f in files:
                if not f.endswith((".cpp", ".h", ".inl")):
                    continue
                path = os.path.join(root, f)
                for n, line in enumerate(open(path, errors="replace"), 1):
                    if re.search(r"#\s*pragma\s+omp\s+parallel", line):
                        sites[(os.path.relpath(path, core.REPO), n)] = 0
    binary = os.path.join(core.build_dir("omp"), "p11_race")
    keys = sorted(a for a in regions if a.startswith("p11_race+"))
    # a region is identified by its return address; one byte earlier lies inside the call and resolves to the pragma line
    offs = [hex(int(a.split("+", 1)[1], 16) - 1) for a in keys]
    out = subprocess.run(["llvm-symbolizer-14", "-e", binary, "--functions=none", "--inlines"] + offs, stdout=subprocess.PIPE, text=True, timeout=120).stdout
    blocks = [b.strip().split("\n") for b in out.strip().split("\n\n")]
    outside = set()
    repo_real = os.path.realpath(core.REPO)
    for a, frames in zip(keys, blocks):
        for loc in frames:  # innermost inlined frame first
            m = re.match(r"(.*):(\d+):\d+$", loc.strip())
            if not m:
                continue
            r = os.path.relpath(os.path.realpath(m.group(1)), repo_real)
            if r.startswith(".."):
                continue
            line = int(m.group(2))
            if line == 0:  # no line for the call itself: fall back to the statement after the region
                fb = subprocess.run(["llvm-symbolizer-14", "-e", binary, "--functions=none", "--no-inlines", "0x" + a.split("+0x", 1)[1]],
                                    stdout=subprocess.PIPE, text=True, timeout=60).stdout.strip().split("\n")[0]
                m2 = re.match(r"(.*):(\d+):\d+$", fb)
                after = int(m2.group(2)) if m2 else 0
                prev = [k for k in sites if k[0] == r and k[1] < after]
                if prev:
                    k = max(prev, key=lambda k: k[1])
                    sites[k] = max(sites[k], max(regions[a]))
                    break
            cand = [k for k in sites if k[0] == r and abs(k[1] - line) <= 1]
            if cand:
                k = min(cand, key=lambda k: abs(k[1] - line))
                sites[k] = max(sites[k], max(regions[a]))
            else:
                outside.add("%s:%d" % (r, line))
            break
    return {
        "parallel_pragma_sites_in_source": len(sites),
        "parallel_pragma_sites_run_with_team_size_ge_2": sum(1 for v in sites.values() if v >= 2),
        "parallel_pragma_sites_not_run_with_team_size_ge_2": sorted("%s:%d%s%s" % (k[0], k[1], " (serial only)" if v == 1 else "", _unreachable(k[0])) for k, v in sites.items() if v < 2),
        "traced_regions_not_matched_to_a_pragma_site": sorted(outside),
    }

THRESHOLDS = {}
REQUIRED_CHECKS = []
MIN_NONTRIVIAL = {"quick": 200, "thorough": 800}

_FRAME = re.compile(r"^\s+#\d+ (.+?) (/\S+?|<null>)(?::\d+)*(?::\d+)? \(")


def _parse_reports(text):
    """Yield (kind, [stack1 frames], [stack2 frames]) for every ThreadSanitizer report in a log file."""
    for block in re.split(r"(?m)^={18}\n", text):
        m = re.search(r"WARNING: ThreadSanitizer: ([^(\n]+)", block)
        if not m:
            continue
        stacks, cur = [], None
        for line in block.splitlines():
            if re.match(r"^\s+(Write|Read|Previous|Atomic|Location|Thread|Mutex|As if)", line) or line.strip() == "":
                if re.match(r"^\s+(Write|Read|Previous|Atomic)", line):
                    cur = []
                    stacks.append(cur)
                else:
                    cur = None
                continue
            fm = _FRAME.match(line)
            if fm and cur is not None:
                cur.append((fm.group(1), fm.group(2)))
        yield m.group(1).strip(), stacks, block


def _site(stack):
    """innermost frame that belongs to GMGPolar or the harness: 'file.cpp:Function'."""
    named = None
    src = None
    for fn, path in stack:
        if "libomp" in path or path.startswith("/usr/") or path == "<null>":
            continue
        if src is None:
            src = os.path.basename(path)
        if not fn.startswith(".omp_outlined") and not fn.startswith("void std::") and not fn.startswith("std::"):
            named = re.sub(r"\(.*$", "", fn)
            break
    return "%s:%s" % (src or "?", named or "?")


def run(tier, seed, replay):
    verdict = core.Verdict(ID, tier, seed)
    sts = stages(tier)
    by = {s.name: s for s in sts}
    outdir = os.path.join(core.RUNS_ROOT, ID, "obs")
    shutil.rmtree(outdir, ignore_errors=True)
    shutil.rmtree(LOGDIR, ignore_errors=True)
    os.makedirs(LOGDIR, exist_ok=True)
    if os.path.exists(TRACE):
        os.remove(TRACE)
    if not os.path.exists(ARCHER):
        raise core.Inconclusive("Archer OMPT tool not found at " + ARCHER)
    if replay is not None:
        verdict.replay_mode = True
        res = core.run_stage(by["tsan-archer"], replay["seed"], replay.get("tier", tier), outdir, only_case=replay["case"])
    else:
        res = core.run_stage(by["tsan-archer"], seed, tier, outdir)
    core.judge_observations(_Mod, verdict, res)
    # ---- TSan logs: one file per case, <LOGDIR>/case<index>.<pid>
    def scan():
        canary, races = set(), []
        for f in glob.glob(os.path.join(LOGDIR, "case*.*")):
            case = int(re.match(r"case(\d+)\.", os.path.basename(f)).group(1))
            for kind, stacks, block in _parse_reports(open(f, errors="replace").read()):
                if "verif_canary_race" in block:
                    canary.add(case)
                    continue
                sites = sorted(_site(s) for s in stacks[:2]) if stacks else ["?"]
                races.append((case, kind, "|".join(sites), block))
        return canary, races

    case_obs = {o.get("case"): o for o in res["obs"]}
    canary, races = scan()
    missing = [k for k in case_obs if k not in canary]
    if missing and replay is None:
        # a process whose canary was not reported is re-run once before the session is called inconclusive
        for k in missing[:10]:
            for f in glob.glob(os.path.join(LOGDIR, "case%d.*" % k)):
                os.remove(f)
            core.run_stage(by["tsan-archer"], seed, tier, outdir, only_case=k)
        canary, races = scan()
        verdict.extra["canary_reruns"] = len(missing[:10])
        missing = [k for k in case_obs if k not in canary]
    if missing:
        verdict.inconclusive.append("the racy canary region was not reported in %d of %d TSan processes: detector not live" % (
            len(missing), len(case_obs)))
    pid_case = case_obs
    for pid, kind, sites, block in races:
        o = pid_case.get(pid, {})
        verdict.add_violation("C11/%s/%s" % (kind.replace(" ", "-"), sites), "ThreadSanitizer: %s at %s" % (kind, sites),
                              {"stage": "tsan-archer", "case": o.get("case")}, {"params": o.get("params"), "report": block[:3000]})
    verdict.extra["tsan_processes"] = len(pid_case)
    verdict.extra["canary_reported_in"] = len(canary)
    verdict.extra["tsan_reports_excluding_canary"] = len(races)
    verdict.extra["thread_counts"] = sorted({(o.get("params") or {}).get("T") for o in res["obs"] if (o.get("params") or {}).get("T")})
    ops = set()
    for o in res["obs"]:
        for s in ((o.get("params") or {}).get("operators_run") or "").split(","):
            if s:
                ops.add(s)
        if (o.get("params") or {}).get("kind") == "solver":
            ops.add("setup+solve")
        if (o.get("params") or {}).get("kind") == "ensemble":
            ops.add("2-4 independent one-thread solver objects driven concurrently by application threads")
        if (o.get("params") or {}).get("kind") == "input-functions":
            ops.add("all shipped input-function classes evaluated concurrently on shared objects")
    verdict.extra["workloads_run_under_tsan"] = sorted(ops)
    # ---- region / team-size coverage from the OMPT trace run (evidence only)
    if replay is None:
        res2 = core.run_stage(by["ompt-trace"], seed, tier, outdir)
        for h in res2["harness_errors"] + res2["crashes"]:
            verdict.inconclusive.append("trace stage failed: %s" % (h.get("kind") or h.get("stderr", ""))[:200])
        regions = {}
        if os.path.exists(TRACE):
            for line in open(TRACE):
                try:
                    o = json.loads(line)
                except ValueError:
                    continue
                if "region" in o:
                    r = regions.setdefault(o["region"], set())
                    r.add(o["max_team"])
                    r.add(o["min_team"])
            os.replace(TRACE, TRACE + ".last")
        verdict.extra["parallel_regions_seen"] = len(regions)
        verdict.extra["parallel_regions_run_with_team_size_ge_2"] = sum(1 for r in regions.values() if max(r) >= 2)
        verdict.extra["team_sizes_seen"] = sorted({t for r in regions.values() for t in r})
        try:
            verdict.extra.update(_source_site_coverage(regions, by["ompt-trace"]))
        except Exception as e:  # evidence only: never decides the verdict
            verdict.extra["parallel_pragma_site_coverage"] = "not computed: %s" % e
    verdict.rule = RULE
    verdict.assumptions = ASSUMPTIONS
    verdict.samples = core.sanitize_json(verdict.samples)
    for v in verdict.violations:
        v["detail"] = core.sanitize_json(v["detail"])
    rc = core.finish(_Mod, verdict, by)
    if rc == 0:
        shutil.rmtree(LOGDIR, ignore_errors=True)
    return rc


class _Mod:
    """module-like view for the generic judge/finish helpers"""
    ID = ID
    THRESHOLDS = THRESHOLDS
    REQUIRED_CHECKS = REQUIRED_CHECKS
    MIN_NONTRIVIAL = MIN_NONTRIVIAL


RULE = ("one process per case: a racy canary region (must be reported), then either the operator workload (residual, smoother, "
        "extrapolated smoother, direct-solver assembly and solve, level caches incl. coarse, all ten transfer operators, vector kernels "
        "and Vector copies above the threshold; give with two cache modes and take) on a grid of a random shape class (circles 2..9 / "
        "20..40, ntheta in {4,...,64,128}: circles mod 2,3,4 and ntheta mod 3,4) or setup()+solve() of a random configuration (5%: an ensemble of 2-4 independent one-thread solver objects driven concurrently by application threads), with "
        "T drawn from {2,3,4,5,7,8,16,17,33,64} threads (33/64 exceed every loop's trip count on the small grids); signature = "
        "(workload, shape class / configuration class, T); every case counts as non-trivial; the evidence lists the parallel regions "
        "and team sizes the OMPT trace saw for the same workload")
ASSUMPTIONS = ["happens-before race detection of the executed iteration-to-thread maps only; Archer supplies OpenMP barrier/fork/join ordering",
               "a session whose canary race is not reported is inconclusive, never 'held'",
               "only top-frame pthread_mutex_* reports inside libomp are suppressed"]
_Mod.RULE = RULE
_Mod.ASSUMPTIONS = ASSUMPTIONS
TECHNIQUE = "ThreadSanitizer with the Archer OMPT tool on a clang/libomp build of the working tree, thread counts 2..64 over grid-shape classes and solver configurations, live-detector canary in every process"
LEVEL_TEXT = ("sampled executions under a happens-before race detector: ~180 (quick) / 3000 (thorough) TSan processes covering every "
              "parallel region of the library with team sizes from 2 to more than the number of lines; zero reports required, any "
              "report is keyed by its two innermost GMGPolar frames")
LEVEL_NOTE = "HB analysis of executed schedules only; TSan keeps a bounded access history; grids with fewer than 2 circles / 3 radial nodes violate the implementation's stated assumptions and are not driven"
