"""C15: copies and moves of linear-algebra objects behave like the original (value-semantics model monitor)."""
from vlib.core import Stage

ID = "C15"
STAGES = [
    # the sanitizer build is the main one (use after free / double free / overflow / null reads are reports there)
    Stage("valuesem-asan", "p15_valuesem", "asan", {"quick": 8000, "thorough": 200000}),
    # the optimised assertion build sees the same histories' siblings (other case indices) at -O2
    Stage("valuesem-plain", "p15_valuesem", "plain", {"quick": 8000, "thorough": 200000}, offset=10000000),
    # large Vector copies under every OpenMP team situation (top level, inside a parallel region, thread limit below
    # omp_get_max_threads(), dynamic adjustment) -- added after the seeded change C15-b slipped through
    Stage("parallel-copy", "p15b_parallel_copy", "plain", {"quick": 300, "thorough": 6000}, offset=20000000),
    Stage("parallel-copy-thread-limit", "p15b_parallel_copy", "plain", {"quick": 300, "thorough": 6000}, offset=20000000,
          env={"OMP_THREAD_LIMIT": "2"}),
    Stage("parallel-copy-asan", "p15b_parallel_copy", "asan", {"quick": 100, "thorough": 1500}, offset=20000000),
]
THRESHOLDS = {
    "copy_carries_unused_entries": 0.5,   # corner element of a tridiagonal solver copied while its cyclic flag is off, flag restored afterwards
    # booleans (0 = as required, 1 = not): exact, bitwise comparisons of everything readable through the public interface
    "elements_match_model": 0.5,      # after every step every live object reads exactly like its plain model
    "target_equals_source": 0.5,      # right after a copy/move the target reads like the source did just before
    "source_unchanged_by_copy": 0.5,  # a copy leaves the source as it was
    "independent_after_op": 0.5,      # writing an element of one object changes nothing readable from any other
    "solve_bit_identical": 0.5,       # same system + same right-hand side => same bits, whichever copy solves it
    "op_completes": 0.5,              # the operation returned normally (no exception; empty-source probes: child survived)
    # max|x - x_ref| / max|x_ref| against a long-double dense LU with pivoting; the generated systems are strictly
    # diagonally dominant (every row: |a_ii| >= 1.5 * off-diagonal sum + 0.5 * scale, n <= 12), so cond_inf <= ~20 and
    # LDL^T / LU without pivoting are backward stable: observed <= 6e-16 over > 1e6 solves.  A solve that uses the wrong
    # factorisation state is off by 1e-2..1e+26; 1e-12 is > 1000x above the former and 1e10x below the latter.
    "solve_vs_dense": 1e-12,
    # stage parallel-copy: large Vector copies at top level / inside a parallel region / under a thread limit
    "copy_equals_source": 0.5,
    "copy_is_independent": 0.5,
}
MIN_NONTRIVIAL = {"quick": 2000, "thorough": 30000}
RULE = ("each case draws one class (Vector, SparseMatrixCOO, SparseMatrixCSR, SparseLUSolver, SymmetricTridiagonalSolver "
        "mostly-cyclic / mostly-non-cyclic, DiagonalSolver) and a random history of 4..12 operations over four object slots: "
        "construct(size, random constructor variant), default-construct, set entries (all / one or two, through every setter "
        "interface), solve (new right-hand side or the one already solved for this system), copy-construct, move-construct, "
        "copy-assign and move-assign onto a target of any state and equal or different size, self copy-assign, destroy; "
        "sources may be default-constructed, fresh, filled, factorised, moved-from or copies of moved-from objects; "
        "signature = (class, which operation kinds occurred once / at least twice, set of (copy/move kind, state of the source "
        "[, state of the target])); non-trivial = at least one copy/move from a non-empty source after which, at a later "
        "step, the target was observed (solver classes: solved; data classes: read completely) and, for copies, the source "
        "was observed too, both before being overwritten or destroyed")
ASSUMPTIONS = [
    "observational equality is judged through the public interface only (sizes, every element accessor, solve results); "
    "hidden state shows only through later solves",
    "the readable state of a freshly sized-constructed or default-constructed object is taken as its baseline, not prescribed",
    "moved-from objects and copies of them have no prescribed value: they are only assigned to, copied from and destroyed",
    "setting entries of a tridiagonal solver after its first solve is not part of the histories (the class offers no way to "
    "drop a factorisation other than assigning a new solver, which is part of the histories)",
    "solver matrices are strictly diagonally dominant (LU without pivoting and LDL^T are stable there), n <= 12",
    "operations in which an empty (default-constructed / moved-from) object takes part as source or assignment target are "
    "first tried in a forked child; if the child dies or throws, the operation is recorded as not completing (with the "
    "signal / sanitizer report / exception as key suffix) and skipped in the parent history",
    "sampling: only generated histories are covered; memory leaks are not judged as violations (a LeakSanitizer report at "
    "worker exit makes the run inconclusive)",
]
TECHNIQUE = ("value-semantics model monitor under ASan/UBSan and under -O2 with assertions: random operation histories on the real "
             "classes, a plain dense model per object, bitwise comparison of everything readable after every step, solves "
             "compared bitwise between copies and against a long-double dense solve")
LEVEL_TEXT = ("sampled executions judged by an oracle: thousands (quick) to hundreds of thousands (thorough) of random histories "
              "(length <= 12, four objects) per run over the six classes; every readable element of every live object compared "
              "bitwise with a plain model after every step, targets compared with their sources at the moment of each copy/move, "
              "write-through probes for independence, solves of the same system compared bitwise across copies and within 1e-12 "
              "of a dense long-double solve (observed <= 1e-15); sanitizer reports, assertion failures and exceptions are violations")
LEVEL_NOTE = ("covers only generated histories (small sizes, one class per history, single thread); hidden members are visible only "
              "through later solves; values of moved-from objects are not prescribed; leaks are not judged")
