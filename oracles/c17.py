"""C17: grid node numbering is a bijection consistent with geometry and periodicity."""
from vlib.core import Stage

ID = "C17"
STAGES = [
    Stage("indexing", "p17_indexing", "plain", {"quick": 8000, "thorough": 60000}),
    Stage("indexing-asan", "p17_indexing", "asan", {"quick": 2000, "thorough": 20000}, offset=1000000),
]

# Exact sub-checks: the driver reports the NUMBER OF MISMATCHES found on a grid (every node / every offset is compared
# with a value computed in the harness from the coordinate arrays alone); any mismatch (> 0.5) is a violation.
# Numerical sub-checks: |library value - coordinate difference| in units of the rounding of the coordinates
# (eps*r_{i+1} for radial distances, eps*2pi for angular ones).  The library stores exactly the rounded difference of
# the two coordinates, so the observed value is 0; 4 units is what any formula that "agrees with the coordinate arrays"
# up to rounding stays below, while an off-by-one index or a missing wrap gives >= 1e9 units.
THRESHOLDS = {
    "construction_survives": 0.5,            # constructor / coarseningGrid ran to completion in a forked child
    "accessors_match_coordinates": 0.5,
    "index_is_bijection": 0.5,               # index(i,j) in 0..N-1, no duplicate, onto
    "multiindex_inverts_index": 0.5,         # both multiIndex forms applied to index(i,j)
    "index_inverts_multiindex": 0.5,         # index / fastIndex / index(MultiIndex) applied to multiIndex(k), k=0..N-1
    "index_forms_agree": 0.5,                # fastIndex == index(int,int) == index(MultiIndex); multiIndex forms agree
    "wrap_theta_index": 0.5,                 # vs ((u mod n)+n) mod n in 64-bit arithmetic
    "unwrapped_index_periodic": 0.5,         # index(i,u) == index(i, u mod n)
    "split_partitions_nodes": 0.5,
    "auto_split_min_sizes": 0.5,
    "adjacent_neighbors": 0.5,
    "diagonal_neighbors": 0.5,
    "coarsening_keeps_every_second": 0.5,
    "radial_spacing_vs_coordinates": 4.0,
    "angular_spacing_vs_coordinates": 4.0,
    "neighbor_distances_vs_coordinates": 4.0,
}
MIN_NONTRIVIAL = {"quick": 60, "thorough": 150}

RULE = ("cases drawn from VERIF_SEED: 90% coordinate arrays (nr = 2,3,4,5 with 14% weight, 2^k+1 with 28%, else 6..40 "
        "[72 thorough]; ntheta even, 2..128 [256] power of two (40%) or not; uniform/geometric/random radii, "
        "uniform/random antipodal angles; splitting radius automatic (30%), below R0 (incl. 0, negative, -inf), equal "
        "to R0, between nodes, equal to a node, equal to Rmax, above Rmax (incl. 1e300, +inf)), 10% parametric "
        "constructor (uniform, divideBy2 0..2); every grid of the coarsening chain down to the last grid the "
        "constructor accepts is checked exhaustively (all nodes, all offsets in +-5 ntheta, 90 far offsets up to "
        "+-2^30, INT_MIN/INT_MAX); signature = (nr class [2,3,4,5,6-8,9-16,17-32,33+], ntheta power of two?, split "
        "class, source, levels in the chain capped at 4); non-trivial = grid constructed, both the circle and the "
        "radial section non-empty, at least 12 nodes")
ASSUMPTIONS = [
    "the expected neighbour / spacing / wrap values are computed in the harness from the input coordinate arrays only",
    "sampling: array sizes above 72 x 256 and grids built by the anisotropic or the file constructor are not covered",
    "where the requested splitting radius equals a node radius either side is accepted for that node",
]
TECHNIQUE = ("runtime monitor with exhaustive per-grid enumeration: every index/multi-index/wrap/neighbour/spacing/split "
             "query of the real PolarGrid on generated grids and their coarsening chains compared with values derived "
             "from the coordinate arrays; constructions probed in a forked child; plain and ASan/UBSan builds, asserts on")
LEVEL_TEXT = ("sampled executions judged by an oracle: 500 (quick) / 50 000 (thorough) generated grids plus their "
              "coarsening chains; on each grid ALL nodes and all angular offsets in +-5 ntheta (plus far samples) are "
              "compared exactly (integer results: any mismatch counts; distances: 4 rounding units of the coordinates, "
              "observed 0)")
LEVEL_NOTE = ("covers only generated grid shapes (nr <= 72, ntheta <= 256); the numbering layout inside a section is "
              "not prescribed, only bijectivity, agreement of all forms, the exact split and geometric neighbourhood")
