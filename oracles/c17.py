"""C17: grid node numbering is a bijection consistent with geometry and periodicity."""
from vlib.core import Stage

ID = "C17"
# ~0.5 ms (plain) / ~4 ms (asan) per quick case, ~4 / ~12 ms per thorough case (larger grids) on one core
STAGES = [
    Stage("indexing", "p17_indexing", "plain", {"quick": 8000, "thorough": 100000}),
    Stage("indexing-asan", "p17_indexing", "asan", {"quick": 2000, "thorough": 30000}, offset=1000000),
]

# Exact sub-checks: the driver reports the NUMBER OF MISMATCHES found on a grid (every node / every offset is compared
# with a value computed in the harness from the coordinate arrays alone); any mismatch (> 0.5) is a violation.
# Numerical sub-checks: |library value - coordinate difference| in units of the rounding of the coordinates
# (eps*r_{i+1} for radial distances, eps*2pi for angular ones).  The library stores exactly the rounded difference of
# the two coordinates, so the observed value is 0; 4 units is what any formula that "agrees with the coordinate arrays"
# up to rounding stays below, while an off-by-one index or a missing wrap gives >= 1e9 units (seen: 1e13..1e14).
THRESHOLDS = {
    "copy_assigned_grid_consistent_after_source_destroyed": 0.5,
    "construction_survives": 0.5,            # constructor / coarseningGrid ran to completion in a forked child
    "accessors_match_coordinates": 0.5,      # nr, ntheta, numberOfNodes, radius(i), theta(j), radii(), angles()
    "index_is_bijection": 0.5,               # index(i,j) in 0..N-1, no duplicate, onto
    "multiindex_inverts_index": 0.5,         # both multiIndex forms applied to index(i,j)
    "index_inverts_multiindex": 0.5,         # index / fastIndex / index(MultiIndex) applied to multiIndex(k), k=0..N-1
    "index_forms_agree": 0.5,                # fastIndex == index(int,int) == index(MultiIndex); multiIndex forms agree
    "wrap_theta_index": 0.5,                 # vs ((u mod n)+n) mod n in 64-bit arithmetic
    "unwrapped_index_periodic": 0.5,         # index(i,u) == index(i, u mod n)
    "split_partitions_nodes": 0.5,           # counts add up, circle nodes are exactly [0, circles*ntheta), radius separates
    "auto_split_min_sizes": 0.5,             # automatic split: >=3 circles and >=3 radial nodes (nr>=6), 2 / 3 for nr=5
    "adjacent_neighbors": 0.5,               # and polarCoordinates of node and neighbours
    "diagonal_neighbors": 0.5,
    "coarsening_keeps_every_second": 0.5,    # sizes, radii[2i], angles[2j], all four boundaries, bit-equal
    "radial_spacing_vs_coordinates": 4.0,
    "angular_spacing_vs_coordinates": 4.0,   # in-range, unwrapped near (-2n-1..3n) and far offsets
    "neighbor_distances_vs_coordinates": 4.0,
}
# measured: 479 (quick, every seed) / 635 (thorough) distinct non-trivial signatures
MIN_NONTRIVIAL = {"quick": 350, "thorough": 450}

RULE = ("cases drawn from VERIF_SEED: 90% coordinate arrays (nr = 2,3,4,5 with 14% weight, 2^k+1 (3..33 [129 thorough]) "
        "28%, 6..8 8%, else 6..40 [192]; ntheta even: power of two 2..128 [1024] (40%), multiple of 4 or any even number "
        "up to 96 [768]; at most 6000 [80000] nodes; uniform/geometric/random radii, R0/Rmax from 1e-8 to 0.5, Rmax 1e-3.."
        "1e3; uniform/random antipodal angles; splitting radius automatic (30%), below R0 (incl. 0, negative, -inf, "
        "predecessor of R0), equal to R0, between two nodes (incl. 1e-12 from either), equal to a node, equal to Rmax, "
        "above Rmax (incl. successor of Rmax, 1e300, +inf)), 10% parametric constructor (uniform division, nr_exp 1..4 "
        "[6], ntheta_exp -1..6 [8], divideBy2 0..2); every grid of the coarsening chain down to the last grid the "
        "constructor accepts (nr odd >= 3, ntheta multiple of 4) is checked like the fine one: ALL nodes, all angular "
        "offsets in +-5 ntheta, 90 far offsets (random in +-2^30, far multiples of ntheta +-1, +-2^30 +-1, "
        "INT_MIN/INT_MAX +-1); signature = (nr class [2,3,4,5,6-8,9-16,17-32,33+], ntheta power of two?, ntheta "
        "class [2,4,6-16,18-64,66-256,258+], split class [7], source, number of grids in the chain capped at 4); non-trivial = grid constructed, both the circle and the "
        "radial section non-empty, at least 12 nodes")
ASSUMPTIONS = [
    "expected neighbour / spacing / wrap values are computed in the harness from the input coordinate arrays only; "
    "for the parametric constructor the arrays are the ones the grid reports (radii(), angles())",
    "sampling: array sizes above 192 x 1024 (80000 nodes) and grids from the anisotropic or the file constructor are not covered",
    "where the requested splitting radius equals a node radius either side is accepted for that node "
    "(header comment and implementation differ on this case; the property does not fix it)",
    "the numbering layout inside a section (theta-major / r-major) is not prescribed, only what the property states",
]
TECHNIQUE = ("runtime monitor with exhaustive per-grid enumeration: every index / multi-index / wrap / neighbour / spacing / "
             "split query of the real PolarGrid on generated grids and on their coarsening chains is compared with values "
             "derived from the coordinate arrays; constructions are probed in a forked child so that an abort is an "
             "observation; plain (-O2) and ASan/UBSan builds, assertions on")
LEVEL_TEXT = ("sampled executions judged by an oracle: 10 000 (quick) / 130 000 (thorough) generated grids plus their "
              "coarsening chains; on each grid ALL nodes and all angular offsets in +-5 ntheta (plus far samples up to "
              "INT_MIN/INT_MAX) are compared exactly (integer results: any mismatch counts; distances: 4 rounding units "
              "of the coordinates, observed 0)")
LEVEL_NOTE = ("covers only generated grid shapes (nr <= 192, ntheta <= 1024, <= 80000 nodes); a node whose radius equals "
              "the requested splitting radius may be on either side; a break that keeps all index functions mutually "
              "consistent and bijective but changes the layout inside a section is not reported")
