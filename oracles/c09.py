"""C09: FMG -- exact high-order interpolation, nested iteration from the coarsest level."""
from vlib.core import Stage

ID = "C09"
STAGES = [
    Stage("fmginterp", "p09a_fmginterp", "plain", {"quick": 40, "thorough": 3000}, timeout_per_case=120),
    Stage("fmgstart", "p09b_fmgstart", "plain", {"quick": 60, "thorough": 2000}, timeout_per_case=300),
    Stage("fmginterp-asan", "p09a_fmginterp", "asan", {"quick": 10, "thorough": 200}, offset=1000000, timeout_per_case=300),
    Stage("fmgstart-asan", "p09b_fmgstart", "asan", {"quick": 10, "thorough": 150}, offset=1000000, timeout_per_case=600),
]
THRESHOLDS = {
    # interpolation operator
    "coarse_nodes_copied": 0.5,
    "constants_reproduced": 1e-12,
    "partition_of_unity": 1e-13,          # |sum w - 1| / sum |w|
    "support_is_4x4_coarse_stencil": 0.5,
    "cubic_moments": 1e-11,               # |sum w dr^a dth^b| / sum |w dr^a dth^b|, a,b <= 3 (coordinate rounding subtracted)
    "fmg_linear_fallback": 1e-11,         # degree-1 moment in r on the two lines next to the boundaries
    # start-up
    "level_rhs_present": 0.5,
    "level_rhs_vs_reference": 1e-12,
    "start_vector_finite": 0.5,
    "startup_vs_reference_nested_iteration": 1e-10,
    "two_level_start_is_interpolated_coarse_solution": 1e-10,
    "start_is_function_of_data_only": 0.5,
    "start_error_over_converged_error": 1.0,   # (start error / converged error) / 20, judged for >= 2 start-up cycles and R0 <= 1e-3 Rmax
}
MIN_NONTRIVIAL = {"quick": 40, "thorough": 300}
RULE = ("stage fmginterp: random fine/coarse pairs (midpoint-nested and arbitrary, any split, coarse ntheta down to 4), the matrix of "
        "applyFMGInterpolation extracted by unit vectors, every node class (boundary / next-to-boundary / interior x parities) judged; "
        "stage fmgstart: random solver configurations with FMG on and maxIterations=0 (2..5 levels, 0..3 start-up cycles of type "
        "V/W/F, with/without extrapolation, give/take) on fresh, polluted and reused objects; signature = generated class tuple; "
        "non-trivial = all 12 node classes present (interp) / non-zero start vector (start-up)")
ASSUMPTIONS = ["reference nested iteration uses the public level operators (validated by C03-C08, C10)",
               "accuracy sub-check only on grids >= 33x64 with >= 1 start-up cycle, non-refined problems"]
TECHNIQUE = "runtime monitor: interpolation matrix by unit vectors with polynomial-moment oracle; reference-model monitor for the nested-iteration start-up across object histories (fresh / polluted / reused); ASan/UBSan replay"
LEVEL_TEXT = ("sampled executions judged by an oracle: tensor moments up to degree 3 of every interpolation row (1e-11), start vector "
              "equal to a reference nested iteration over public operators (1e-10), to the independently computed interpolated coarse "
              "solution for two levels, bit-identical across fresh/polluted/reused objects, and, with two or more start-up cycles, within 20x of the converged error (observed <= 5x)")
LEVEL_NOTE = "trusts level operators checked elsewhere; sampling only; the linear-fallback defect at non-midpoint nodes is the recorded finding F2"
