"""C12: results are reproducible and do not depend on the thread count."""
from vlib.core import Stage

ID = "C12"
_ENV = {"OMP_WAIT_POLICY": "passive", "KMP_BLOCKTIME": "0"}


def stages(tier):
    n_plain = {"quick": 240, "thorough": 2400}
    n_omp = {"quick": 96, "thorough": 800}
    reps_plain = 5 if tier == "quick" else 8
    reps_omp = 3 if tier == "quick" else 6
    st = []
    for r in range(reps_plain):
        st.append(Stage("gomp-rep%d" % r, "p12_repro", "plain", n_plain, env=dict(_ENV), timeout_per_case=600))
    for r in range(reps_omp):
        env = dict(_ENV)
        env.update({"OMP_TOOL_LIBRARIES": "{bdir}/libverif_jitter.so", "VERIF_JITTER_US": "200", "VERIF_JITTER_SEED": str(1000 + r),
                    "VERIF_OMPT_TRACE": "/verif/.runs/C12/ompt_trace_%d.jsonl" % r})
        st.append(Stage("libomp-jitter-rep%d" % r, "p12_repro", "omp", n_omp, env=env, extra_targets=["verif_jitter"],
                        timeout_per_case=900))
    return st


THRESHOLDS = {
    # across thread counts (vs 1 thread): re-association only
    "thread_count_residual": 1e-12,                  # per row / (|A||u| + |f|)
    "thread_count_changes_gather_operator": 0.0,     # transfer operators and caches gather: bit-identical for any T
    "thread_count_smoother": 1e-10,                  # / ||x|| / max(1, 1e-3 Rmax/R0)
    "thread_count_direct_solver": 1e-9,              # / ||x|| / max(1, 1e-3 Rmax/R0)
    "thread_count_solution_after_k_cycles": 1e-9,
    # recorded residual norms / ||r_0||, exact errors / first error, mean reduction factor, after a fixed number of cycles
    "thread_count_statistics": 1e-8,
    # vector kernels vs long double: |result - ref| / (4 n eps sum|terms|)
    "kernel_dot_product": 1.0,
    "kernel_l1_norm": 1.0,
    "kernel_l2_norm_squared": 1.0,
    "kernel_infinity_norm_exact": 0.5,
    "kernel_elementwise_exact": 0.5,
    # fresh processes, same thread count: bit-identical (hash of every output vector)
    "run_to_run_bit_identical": 0.5,
}
MIN_NONTRIVIAL = {"quick": 100, "thorough": 500}
_hashes = {}


def post_stage(stage, res, verdict):
    fam = "gomp" if stage.name.startswith("gomp") else "libomp-jitter"
    for o in res["obs"]:
        _hashes.setdefault(fam, {}).setdefault(o.get("case"), []).append((stage.name, o.get("hashes") or {}, o.get("params")))


def finalize(verdict):
    import glob, json, os
    compared = 0
    for fam, cases in _hashes.items():
        for case, runs in cases.items():
            if len(runs) < 2:
                continue
            ref_name, ref, params = runs[0]
            for name, h, _ in runs[1:]:
                for k in sorted(set(ref) | set(h)):
                    compared += 1
                    verdict.counts["run_to_run_bit_identical"] = verdict.counts.get("run_to_run_bit_identical", 0) + 1
                    if ref.get(k) != h.get(k):
                        op, _, t = k.partition("@")
                        verdict.add_violation("C12/run_to_run_bit_identical/%s/%s/%s" % (fam, op, t),
                                              "output %s differs between %s and %s (case %s)" % (k, ref_name, name, case),
                                              {"stage": ref_name, "case": case}, params)
    verdict.extra["hash_comparisons_between_fresh_processes"] = compared
    # what the OMPT tool observed in the libomp runs: regions, team sizes, injected delays
    regions, delays, events, teams = set(), 0, 0, set()
    for f in glob.glob("/verif/.runs/C12/ompt_trace_*.jsonl"):
        for line in open(f):
            try:
                o = json.loads(line)
            except ValueError:
                continue
            if "region" in o:
                regions.add(o["region"])
                teams.add(o["max_team"])
            else:
                delays += o.get("delays", 0)
                events += o.get("events", 0)
        os.remove(f)
    verdict.extra["ompt_parallel_regions_seen"] = len(regions)
    verdict.extra["ompt_team_sizes_seen"] = sorted(teams)
    verdict.extra["ompt_events"] = events
    verdict.extra["ompt_injected_delays"] = delays


RULE = ("case kinds cycle operators / operators / solver / kernels. operators: random grid (20% above the 10 000-node threshold), "
        "geometry, DirBC; residual, smoother, extrapolated smoother (give+take), direct-solver assembly, all transfer operators and the "
        "level cache for T in {1,2,3,4,8,16,32}; solver: random configuration with tolerances disabled and 1..6 cycles, thread "
        "reduction factor in {1,0.7,0.5}; kernels: n in {1,7,9999,10000,10001,20011,65537} for T=1..32. The same cases are run in 5 "
        "(quick) / 8 fresh processes on g++/libgomp and 3 / 6 on clang/libomp with an OMPT tool injecting 0-200 us delays at every "
        "work-sharing, barrier and implicit-task begin; the hashes of all outputs must agree between processes. signature = case "
        "class tuple; non-trivial = the runtime really delivered T threads")
ASSUMPTIONS = ["scalars from parallel reductions are only held to the re-association bound, never to bit-identity",
               "16 cores: T = 32 is oversubscribed (passive wait policy)"]
TECHNIQUE = "runtime monitor under schedule perturbation: output hashes compared across fresh processes and two OpenMP runtimes (libgomp; libomp + OMPT jitter tool), thread-count differential against 1 thread, long-double reference for the vector kernels"
LEVEL_TEXT = ("sampled executions judged by an oracle: run-to-run bit-identity of every operator output and of the solution after k cycles "
              "over 5-8 fresh processes per runtime incl. injected delays; thread-count independence to re-association level; vector "
              "kernels to 4 n eps of the sum of absolute terms below and above the parallel threshold")
LEVEL_NOTE = "schedules are sampled (delays injected through OMPT), not enumerated; a race that never manifests as a value difference is C11's job"
