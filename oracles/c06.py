"""C06: smoothing is an exact zebra line relaxation of the same operator."""
from vlib.core import Stage

ID = "C06"
STAGES = [
    Stage("smoother", "p06_smoother", "plain", {"quick": 200, "thorough": 20000}, timeout_per_case=120),
    Stage("smoother-asan", "p06_smoother", "asan", {"quick": 32, "thorough": 800}, offset=1000000, timeout_per_case=300),
    Stage("smoother-thread-limit", "p06_smoother", "plain", {"quick": 60, "thorough": 2000}, offset=2000000, timeout_per_case=120, env={"OMP_THREAD_LIMIT": "2"}),
]
THRESHOLDS = {
    "reused_object_equals_fresh_object": 1e-10,   # second problem written into the same rhs buffer: swept object vs fresh object, / |x|
    "fixed_point_residual": 1e-11,   # residual of S(x*) per row / (rowsum*||x|| + |f|) / max(1, 1e-3 Rmax/R0)
    "fixed_point_forward": 1e-10,    # ||S(x*)-x*||/||x*||, mild meshes only
    "white_line_residual": 1e-12,   # residual on the last-updated colour after a sweep from any iterate
    "dirichlet_nodes_equal_data": 0.5,
    "give_vs_take": 1e-10,          # mild meshes only
    "energy_increase": 1e-10,        # E(S(x)-x*)/E(x-x*) - 1
    "result_finite": 0.5,
}
MIN_NONTRIVIAL = {"quick": 60, "thorough": 400}
RULE = ("case = random smoothing-level grid (ntheta in 4N, >=2 circles with both parities via explicit split, >=3 radial nodes, "
        "automatic split in 30%; 4% levels of 81-97 x 128-160 nodes with 2-32 threads), geometry (15% mirrored, det DF < 0)/profile, DirBC, give cache combination + take, threads in {1,2,4,7}, start iterate "
        "(random, exact+noise, exact, zeros), scratch vector filled with garbage; signature = (circle parity, ntheta mod 8, "
        "DirBC, cache combo, geometry, threads, start kind); non-trivial = >=4 circles and >=8 radial lines (>=2 lines of each colour)")
ASSUMPTIONS = ["exact discrete solution obtained from the library direct solver (C04) plus one step of iterative refinement with the reference residual",
               "forward comparisons (fixed point, give vs take) are judged on mild meshes only (spacing ratios <= 100, R0 >= 0.05 Rmax); the backward forms are judged everywhere"]
TECHNIQUE = "runtime monitor: smoother output judged by an independent reference residual (white-line residual, fixed point, Dirichlet data, energy norm) and give/take differential; ASan/UBSan replay"
LEVEL_TEXT = ("sampled executions judged by an oracle: generated smoothing-level grids, both strategies, 1-7 threads; after one sweep the "
              "reference residual must vanish (1e-12 of the row scale) on every white circle and white radial line, Dirichlet nodes "
              "equal the data exactly, the exact solution stays a fixed point, energy norm of the error does not increase")
LEVEL_NOTE = "trusts the harness reference stencil and the direct solver as validated by C04; sampling only"
