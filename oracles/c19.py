"""C19: shipped test problems are consistent manufactured solutions.

Every command-line combination (geometry x problem x alpha_coeff x beta_coeff = 128) is driven through
GMGPolar::setParameters; the objects it selected are read through the GMGPOLAR_VERIF friend accessor and measured:
Jacobian functions vs numerical derivatives of Fx/Fy, rhs_f vs -div(alpha grad u) + beta u assembled from point values
of the selected exact_solution / alpha / beta / Jacobian by numerical differentiation, boundary data vs exact solution,
alpha*beta for the gyro profiles, dynamic types vs the harness's own table.  The driver only measures.
"""
from vlib.core import Stage

ID = "C19"

# tolerance parameters that enter the *scaled* quantities computed by the driver (they belong to the judgement, so they
# live here): the source-term / Jacobian differences are divided by
#     (magnitude of the terms) + GAIN * (measured uncertainty of the numerical differentiation)
# i.e. with the thresholds below the accepted difference is  1e-6 * |terms| + 1000 * uncertainty  (source term) and
# 1e-8 * |column of DF| + 1000 * uncertainty (Jacobian).
NOISE_GAIN = 1e9
JAC_NOISE_GAIN = 1e11

# one case = one command-line combination (index mod 128) with fresh Rmax / R0 / geometry parameters and `points`
# sample points; 77 of the 128 combinations are offered by the library.
POINTS = {"quick": 100, "thorough": 1000}
CASES = {"quick": 12800, "thorough": 46080}    # 100 / 360 parameter draws per combination
ASAN_CASES = {"quick": 384, "thorough": 3840}


def stages(tier):
    # points per case are chosen by the driver from its --tier (100 quick / 1000 thorough, = POINTS) so that a replay
    # reproduces the case whatever --tier the replaying command line has
    args = {"noise_gain": NOISE_GAIN, "jac_noise_gain": JAC_NOISE_GAIN}
    # the same driver under ASan/UBSan on a smaller range (table look-ups of the Culham geometry, pow/sqrt domains)
    san = dict(args, points=100)
    return [Stage("manufactured", "p19_manufactured", "plain", {tier: CASES[tier]}, args=args, timeout_per_case=120.0),
            Stage("manufactured-asan", "p19_manufactured", "asan", {tier: ASAN_CASES[tier]}, args=san,
                  timeout_per_case=120.0, offset=1000000),
            # every shipped class evaluated by 2..16 threads sharing one object (as the rhs build does) vs sequentially, bit
            # for bit -- added after the seeded change C19-b (a memoising source term) passed the sequential monitor
            Stage("concurrent-eval", "p19b_concurrent_eval", "plain", {"quick": 216, "thorough": 2160},
                  timeout_per_case=120.0, offset=2000000)]


THRESHOLDS = {
    "concurrent_evaluation_equals_sequential": 0.5,   # stage concurrent-eval (boolean, bitwise)
    # -- what the command line selects (booleans)
    "selection_table": 0.5,        # accepted <=> the harness table (factory.h) offers the combination
    "selection_parameters": 0.5,   # Rmax, R0, kappa_eps, delta_e, alpha_jump arrive bit-exactly
    "selection_complete": 0.5,     # all five objects present
    "selection_types": 0.5,        # dynamic type of each selected object == the table's class
    # -- (1) Jacobian functions vs 8th-order differences of Fx, Fy; scaled by |column of DF| + gain * uncertainty.
    #    observed <= 3e-12 (ratio 3e-4); rounding of the difference quotient alone is ~1e-13
    "jacobian": 1e-8,
    # Culham: mapping is piecewise linear in r (1000 tabulated cells): secant over a whole cell vs Jacobian function at
    # the cell midpoint, relative to |column|.  Consistent tables agree to O(cell^2): observed 8e-9 for cells >= 16.
    "jacobian_culham_radial": 5e-6,
    # cells 1..15 carry the start-up error of the tabulated ODE solution (observed 2.1e-5 in cell 1, decaying ~cell^-3)
    "jacobian_culham_radial_startup": 5e-3,
    # -- (2) |f - L u| / (|f| + sum |terms of L u| + gain * uncertainty); observed <= 1e-9 (ratio 1e-3)
    "source_term": 1e-6,
    # -- (3) |u_D - u| / amplitude of u; the shipped classes evaluate the same expression: observed exactly 0
    "boundary_outer": 1e-12,
    "boundary_interior": 1e-12,
    # -- (4) |alpha*beta - 1|: two correctly rounded factors give <= 3 * 2^-53 = 3.3e-16 (observed 2.2e-16); 1e-13 is
    #    450 units of round-off and 1e10 below a wrong coefficient
    "gyro_alpha_beta": 1e-13,
}

EXPECTED_NON_CULHAM_CLASSES = 66   # 3 geometries x (3 problems x 7 profiles + Refined/ZoniShiftedGyro); see RULE
EXPECTED_CULHAM_CLASSES = 2
MIN_NONTRIVIAL = {"quick": 68, "thorough": 68}

RULE = ("case i drives command-line combination i mod 128 (geometry 0-3, problem 0-3, alpha_coeff 0-3, beta_coeff 0-1) "
        "with Rmax in {1,1.3,2}, R0 log-uniform in [1e-5,0.3] Rmax, geometry parameters uniform in kappa [0,0.5], delta "
        "[0,min(0.3,0.4(1-kappa))] (mapping regular), epsilon [0.1,0.5], e [1,2] (15% library defaults), alpha_jump uniform; per case 100 (quick) / 1000 "
        "(thorough) points of (R0,Rmax)x[0,2pi): 50% nodes of a 40x64 polar lattice, 30% random (r log-uniform from "
        "max(R0,1e-3 Rmax)), 10% within 1e-9..1e-2 of R0 or Rmax, 10% on/near the axes theta = k pi/2; signature = "
        "dynamic class name of the selected source term (68 classes exist: 66 non-Culham + 2 Culham; the property text "
        "says 64, the tree and the selection table contain 66); a non-Culham case is non-trivial iff rhs_f != 0 at >= 90% "
        "of its points and the numerical differentiation resolved L u to 1e-8 of the term magnitude at >= 2/3 of them; a "
        "Culham case (Jacobian only) iff the mapping's derivative columns are non-zero at every point")
ASSUMPTIONS = [
    "the continuous operator is -(1/|J|)[d_r(|J| a (g^rr u_r + g^rt u_t)) + d_t(|J| a (g^tr u_r + g^tt u_t))] + b u with "
    "the inverse metric of the mapping's coded Jacobian (checked against Fx,Fy by sub-check 'jacobian')",
    "numerical differentiation: 9-point stencils (8th order, shifted at Rmax so that no node leaves r <= Rmax), every "
    "derivative with its own ladder of 5-9 step sizes (radial step min(0.02 Rmax, r/8) halved; nodes may lie below R0 but "
    "stay > r/2 > 0, where the closed forms are still defined); the estimate that agrees best with its ladder neighbours "
    "is used, and its uncertainty = neighbour disagreement + rounding bound + noise measured by 8th differences",
    "where the uncertainty dominates (all terms vanish to high order: next to Rmax for the R6 problems, on symmetry "
    "axes) the comparison is correspondingly weaker; the fraction of resolved points is reported in the evidence",
    "Culham: only Jacobian/mapping consistency is measured (source term is prescribed); its radial direction is compared "
    "cell-wise because the coded mapping is a linear interpolation of tables",
    "sampling: parameter values / points not generated are not covered",
]
TECHNIQUE = ("runtime monitor with a numerical-differentiation oracle: the objects selected by the real "
             "GMGPolar::setParameters for every command-line combination are evaluated at generated points and their "
             "Jacobian / source term / boundary / beta values compared with 8th-order finite differences of their own "
             "mapping / exact solution; dynamic types compared with an independent table")
LEVEL_TEXT = ("sampled executions judged by an oracle: all 128 command-line combinations (77 offered, 68 source-term "
              "classes) x 100 (quick) / 360 (thorough) parameter draws x 100 / 1000 points; scaled differences against "
              "thresholds >= 100x above the worst value observed on consistent classes")
LEVEL_NOTE = ("not a symbolic proof: differences below 1e-6 of the term magnitude (1e-8 for the Jacobian) plus 1000x the "
              "measured differentiation uncertainty are invisible; points/parameters are sampled; trusts libm and the "
              "harness's formula for the operator")


_ACC = {"reached": set(), "reached_nt": set(), "accepted": 0, "rejected": 0, "pts": 0, "resolved": 0, "fnz": 0}


def post_stage(stage, res, verdict):
    """Coverage bookkeeping (accumulated over the stages): which source-term classes did the enumeration reach."""
    for o in res["obs"]:
        info = o.get("info") or {}
        if info.get("accepted"):
            _ACC["accepted"] += 1
        else:
            _ACC["rejected"] += 1
            continue
        cls = info.get("source_class")
        if not cls:
            continue
        _ACC["reached"].add(cls)
        if o.get("nontrivial"):
            _ACC["reached_nt"].add(cls)
        if "Culham" not in cls:
            _ACC["pts"] += (o.get("params") or {}).get("points", 0)
            _ACC["resolved"] += info.get("resolved", 0)
            _ACC["fnz"] += info.get("f_nonzero", 0)


def finalize(verdict):
    if getattr(verdict, "replay_mode", False):
        return
    non_culham = sorted(c for c in _ACC["reached"] if "Culham" not in c)
    culham = sorted(c for c in _ACC["reached"] if "Culham" in c)
    pts = _ACC["pts"]
    verdict.extra["cli_combinations_accepted"] = _ACC["accepted"]
    verdict.extra["cli_combinations_rejected"] = _ACC["rejected"]
    verdict.extra["source_classes_reached_non_culham"] = len(non_culham)
    verdict.extra["source_classes_reached_culham"] = len(culham)
    verdict.extra["source_classes_nontrivial"] = len(_ACC["reached_nt"])
    verdict.extra["source_points"] = pts
    verdict.extra["source_points_resolved_fraction"] = round(_ACC["resolved"] / pts, 4) if pts else 0.0
    verdict.extra["source_points_f_nonzero_fraction"] = round(_ACC["fnz"] / pts, 4) if pts else 0.0
    if len(non_culham) < EXPECTED_NON_CULHAM_CLASSES:
        verdict.inconclusive.append("command-line enumeration reached only %d of %d non-Culham source-term classes" % (
            len(non_culham), EXPECTED_NON_CULHAM_CLASSES))
    if len(culham) < EXPECTED_CULHAM_CLASSES:
        verdict.inconclusive.append("command-line enumeration reached only %d of %d Culham source-term classes" % (
            len(culham), EXPECTED_CULHAM_CLASSES))
