"""C07: extrapolated smoothing relaxes fine-only nodes and never moves coarse nodes."""
from vlib.core import Stage

ID = "C07"
STAGES = [
    Stage("extrasmoother", "p07_extrasmoother", "plain", {"quick": 200, "thorough": 20000}, timeout_per_case=120),
    Stage("extrasmoother-asan", "p07_extrasmoother", "asan", {"quick": 32, "thorough": 800}, offset=1000000, timeout_per_case=300),
    Stage("extrasmoother-thread-limit", "p07_extrasmoother", "plain", {"quick": 60, "thorough": 2000}, offset=2000000, timeout_per_case=120, env={"OMP_THREAD_LIMIT": "2"}),
]
THRESHOLDS = {
    "reused_object_equals_fresh_object": 1e-10,   # second problem written into the same rhs buffer: swept object vs fresh object, / |x|
    "coarse_nodes_bit_identical": 0.5,       # memcmp of every (even i_r, even i_theta) value before/after
    "white_fine_node_residual": 1e-12,       # reference residual on fine-only nodes of the last-updated colour
    "dirichlet_fine_nodes_equal_data": 0.5,
    "fixed_point_residual": 1e-11,           # normalised by max(1, 1e-3 Rmax/R0), see C06
    "fixed_point_forward": 1e-10,            # mild meshes only
    "give_vs_take": 1e-10,                   # mild meshes only
    "result_finite": 0.5,
}
MIN_NONTRIVIAL = {"quick": 60, "thorough": 400}
RULE = ("case = random finest-level grid (odd nr >= 7, ntheta in 4N, >=3 circles of both parities, >=3 radial nodes; 4% levels of 81-97 x 128-160 nodes with 2-32 threads), geometry (15% mirrored, det DF < 0)/"
        "profile, DirBC, give cache combination + take, threads in {1,2,4,7,16}, start iterate (random, exact+noise, exact, "
        "10^U[-6,6] magnitudes), scratch vector filled with garbage; signature = (circle parity, ntheta mod 8, DirBC, cache combo, "
        "geometry, threads, start kind); non-trivial = coarse nodes present in both the circle and the radial section, >=4 circles, ntheta >= 8")
ASSUMPTIONS = ["exact discrete solution from the library direct solver (C04) + one refinement step", "forward comparisons judged on mild meshes only"]
TECHNIQUE = "runtime monitor: memcmp of coarse-node values across the sweep, independent reference residual on fine-only white-line nodes, fixed point, give/take differential; ASan/UBSan replay"
LEVEL_TEXT = ("sampled executions judged by an oracle: generated finest-level grids, both strategies, 1-16 threads, arbitrary iterates "
              "incl. 12 orders of dynamic range; coarse nodes compared bit for bit, residual on last-updated fine-only nodes 1e-12 of "
              "the row scale, exact solution fixed, give == take")
LEVEL_NOTE = "trusts the harness reference stencil and the direct solver as validated by C04; sampling only"
