"""C16: SparseLUSolver solves every system with non-vanishing pivots, in any storage order."""
from vlib.core import Stage

ID = "C16"
STAGES = [
    Stage("lu", "p16_sparselu", "plain", {"quick": 20000, "thorough": 160000}),
    Stage("lu-asan", "p16_sparselu", "asan", {"quick": 3000, "thorough": 20000}, offset=10000000),
]
THRESHOLDS = {
    # max over rows i and right-hand sides of
    #     |b_i - sum_j A_ij x_j| / ((|L||U||x|)_i + |b_i| + u (|L||U|e)_i max_j|x_j|),      u = 2^-53,
    # L and U from a dense long-double LU without pivoting of the same matrix.  Backward error analysis of LU without
    # pivoting bounds the first-order part by ~3 n u (n <= 480: 1.6e-13); the scale is invariant under row scaling and
    # already contains the growth, so no growth fudge factor is needed.  The u-term is a floor for rows whose
    # first-order scale vanishes (exact cancellations in the exact factors, e.g. dyadic matrices with unit right-hand
    # sides): there the residual is an O(u^2) quantity (seen: 1e-31 against a scale of 1e-31; 1e-33 normwise).
    # Observed on the unchanged tree: <= 8.1e-15 (n ~ 400, thorough), typically 1e-16; breaks give 1e-7 .. 1.
    "residual_rowwise": 1e-11,
    "repeat_solve_identical": 0.5,   # boolean: first right-hand side solved again after the others, bit-identical x
    "solve_returns": 0.5,            # boolean: the process survived factorisation and all solves (no library exit())
    "csr_roundtrip": 0.5,            # boolean: the container returns exactly the entries it was constructed from
}
MIN_NONTRIVIAL = {"quick": 4000, "thorough": 10000}
RULE = ("cases drawn from VERIF_SEED: n in {1, 2, 3-8, 9-30, 31-80, 81-200, 380-440}; pattern in {diagonal, random density, banded, "
        "arrow, block, cyclic, triangular, product of sparse L*U (real / dyadic with exactly-zero diagonal entries), PDE "
        "matrix assembled by the direct solver or smoother (give/take) on a generated grid}; strictly row- or "
        "column-dominant non-symmetric values or non-vanishing leading minors by construction; row scalings "
        "10^[-w,w], w in {0,2,6}, global scale 10^k, k in {0, +-1..8, -18..-13, 13..18}; explicit zeros; five "
        "orderings inside a row; three CSR constructors (+ the library's own assembled object); solver used directly / "
        "after copy / move; 1-6 right-hand sides (normal, wide, unit, zero, A*ones, row-commensurate) through both "
        "solveInPlace overloads, then the first one again.  Cases whose reference LU has a zero pivot, row-wise growth "
        "> 1e8 or pivot cancellation > 1e10 are not executed and are counted; growth in (1e4, 1e8] is executed and "
        "judged but never counted as non-trivial.  signature = (n class, pattern, value "
        "class, ordering, zeros stored, scaling class, constructor, fill-in class none/some/heavy); non-trivial = "
        "solve returned, n >= 2, row-wise growth <= 1e4 and the reference factors have off-diagonal entries in both L and U")
ASSUMPTIONS = [
    "reference: dense long-double LU without pivoting and long-double residuals (harness/p16_sparselu.cpp), independent of the code under test",
    "duplicate (row, column) entries are not generated (the property speaks of storage order and stored zeros only)",
    "sampling: matrices not generated (n > ~480, row-wise growth > 1e4) are not covered",
]
TECHNIQUE = ("runtime monitor: generated and library-assembled sparse systems solved by the real SparseMatrixCSR / "
             "SparseLUSolver in a forked child (library exit()/crash observed), row-wise backward error against a dense "
             "long-double LU reference; ASan/UBSan replay")
LEVEL_TEXT = ("sampled executions judged by an oracle: thousands (quick) to >1e5 (thorough) generated matrices of ten "
              "structural classes incl. matrices assembled by the real solvers, every row of every solve compared with "
              "the row-wise backward-error bound of LU without pivoting (threshold 1e-11, observed < 1e-14); process "
              "exit, repeat solves and container read-back observed; part of the cases under ASan/UBSan")
LEVEL_NOTE = ("trusts the long-double dense reference; covers only generated inputs (n <= ~480, row-wise growth <= 1e4, no "
              "duplicate entries); residual errors below 1e-11 of the row scale are invisible")

_counts = {"skipped": 0, "library_exit": 0, "solved": 0, "high_growth": 0, "skipped_reasons": {}}


def post_stage(stage, res, verdict):
    for o in res["obs"]:
        out = (o.get("info") or {}).get("outcome", "")
        if out.startswith("skipped"):
            _counts["skipped"] += 1
            _counts["skipped_reasons"][out] = _counts["skipped_reasons"].get(out, 0) + 1
        elif out == "library-exit":
            _counts["library_exit"] += 1
        elif out == "solved":
            _counts["solved"] += 1
        elif out == "solved-high-growth":
            _counts["high_growth"] += 1


def finalize(verdict):
    verdict.extra["cases_solved"] = _counts["solved"]
    verdict.extra["cases_solved_high_growth_weak"] = _counts["high_growth"]
    verdict.extra["cases_library_exit"] = _counts["library_exit"]
    verdict.extra["cases_not_executed_inadmissible"] = _counts["skipped"]
    verdict.extra["cases_not_executed_reasons"] = dict(_counts["skipped_reasons"])
    total = _counts["solved"] + _counts["high_growth"] + _counts["library_exit"] + _counts["skipped"]
    weak = _counts["skipped"] + _counts["high_growth"]
    if total and weak > 0.05 * total and not getattr(verdict, "replay_mode", False):
        verdict.inconclusive.append("%d of %d generated cases were outside the oracle's admissible range "
                                    "(zero pivot / growth / cancellation)" % (weak, total))
