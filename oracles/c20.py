"""C20: every option combination is either rejected cleanly or runs without undefined behaviour."""
import math
from vlib.core import Stage

ID = "C20"


def stages(tier):
    return [
        # API route under ASan/UBSan with assertions on: crashes are attributed to the case by the runner
        Stage("api-asan", "p20_options", "asan", {"quick": 240, "thorough": 12000}, timeout_per_case=120),
        # command-line route: the gmgpolar binary itself (ASan/UBSan, assertions on), one process per case
        Stage("cli-asan", "p20_cli", "asan", {"quick": 160, "thorough": 8000}, args={"gmgpolar": "{bdir}/repo/gmgpolar"},
              extra_targets=["gmgpolar"], timeout_per_case=400),
        # differential pair: the same cases with automatic variables initialised to zero / to a pattern
        Stage("api-init0", "p20_options", "init0", {"quick": 120, "thorough": 3000}, offset=500000, timeout_per_case=120),
        Stage("api-initP", "p20_options", "initP", {"quick": 120, "thorough": 3000}, offset=500000, timeout_per_case=120),
        # differential pair on the heap: the same cases with glibc filling every malloc'd block with 0xAA / 0x55
        # (MALLOC_PERTURB_): a member or array element that is read before it is written changes the statistics
        Stage("api-heapAA", "p20_options", "plain", {"quick": 120, "thorough": 3000}, offset=500000, env={"MALLOC_PERTURB_": "85"}, timeout_per_case=120),
        Stage("api-heap55", "p20_options", "plain", {"quick": 120, "thorough": 3000}, offset=500000, env={"MALLOC_PERTURB_": "170"}, timeout_per_case=120),
        # valgrind memcheck on the plain build, one case per process
        Stage("api-memcheck", "p20_options", "plain", {"quick": 12, "thorough": 400}, offset=500000, chunk=1,
              wrapper=["valgrind", "-q", "--error-exitcode=97", "--track-origins=no", "--errors-for-leak-kinds=none"],
              report_exit_codes=[97], timeout_per_case=900),
    ]


THRESHOLDS = {
    "valid_configuration_runs": 0.5,
    "valid_configuration_finite_solution": 0.5,
    "documented_rejection_is_rejected": 0.5,
    "iterations_in_range": 0.5,
    "reduction_factor_finite": 0.5,
    "exact_errors_finite": 0.5,
    "exact_errors_present_after_iterations": 0.5,
    # after a stop by tolerance: |reported - recomputed from solution()| / recomputed, both error norms (observed <= 1e-12)
    "reported_errors_describe_returned_solution": 1e-6,
    "cli_outcome_clean": 0.5,
    "parser_refuses_bad_value": 0.5,
    "printed_statistics_finite": 0.5,
    "statistics_independent_of_uninitialised_locals": 0.5,
    "statistics_independent_of_uninitialised_heap": 0.5,
}
REQUIRED_CHECKS = ["valid_configuration_runs", "iterations_in_range", "reduction_factor_finite", "cli_outcome_clean",
                   "statistics_independent_of_uninitialised_locals", "statistics_independent_of_uninitialised_heap"]
MIN_NONTRIVIAL = {"quick": 60, "thorough": 400}

_stats = {}


def on_crash(crash, verdict):
    # key: <ID>/crash/<route>/<extremes class>/<kind>
    route = "memcheck" if crash["stage"] == "api-memcheck" else "api"
    return "C20/crash/%s/%s" % (route, crash["kind"])


def post_stage(stage, res, verdict):
    if stage.name in ("api-init0", "api-initP", "api-heapAA", "api-heap55"):
        _stats[stage.name] = {o.get("case"): o for o in res["obs"]}
    oc = verdict.extra.setdefault("outcome_classes", {})
    for o in res["obs"]:
        k = stage.name + ":" + (o.get("outcome") or "?").split(":")[0].split("/")[0]
        oc[k] = oc.get(k, 0) + 1
    for c in res["crashes"]:
        k = stage.name + ":crash"
        oc[k] = oc.get(k, 0) + 1


def _same(a, b):
    if isinstance(a, float) and isinstance(b, float):
        if math.isnan(a) and math.isnan(b):
            return True
    return a == b


def finalize(verdict):
    total = 0
    for first, second, sub, what in (("api-init0", "api-initP", "statistics_independent_of_uninitialised_locals", "zero- and pattern-initialised builds"),
                                     ("api-heapAA", "api-heap55", "statistics_independent_of_uninitialised_heap", "runs with malloc'd memory pre-filled with 0xAA / 0x55")):
        a, b = _stats.get(first), _stats.get(second)
        if a is None or b is None:
            continue
        for case, oa in a.items():
            ob = b.get(case)
            if ob is None:
                continue
            total += 1
            sa, sb = oa.get("stats") or {}, ob.get("stats") or {}
            diff = [k for k in sorted(set(sa) | set(sb)) if not _same(sa.get(k), sb.get(k))]
            verdict.counts[sub] = verdict.counts.get(sub, 0) + 1
            if diff:
                ext = (oa.get("params") or {}).get("extremes", "")
                verdict.add_violation("C20/%s/%s/%s" % (sub, "+".join(diff), ext),
                                      "statistics differ between %s: %s" % (what, {k: (sa.get(k), sb.get(k)) for k in diff}),
                                      {"stage": first, "case": case}, oa.get("params"))
    verdict.extra["differential_pairs_compared"] = total


RULE = ("case = small valid base configuration plus 0-3 'extreme' options drawn from: take without caches, invalid enum integers "
        "(static_cast through the setters / raw integers on the command line), tolerances positive/0/negative in all combinations, "
        "maxIterations 0/1, zero smoothing steps, 16-33 threads with reduction factors down to 0.05, maxLevels 0/1/2/9, "
        "non-coarsenable and smallest two-level grids, R0<=0, R0>=Rmax, anisotropic refinement with the radius inside/outside "
        "[R0,Rmax], paraview with/without exact solution, grid files missing / written, non-numeric and unknown options, unsupported "
        "geometry/problem/profile triples; 20% of the API cases run on an object that has already set up and solved with another inner radius; after a stop by tolerance the reported errors are recomputed from solution(); signature = (outcome class, set of extreme options); every case counts as non-trivial "
        "(it reached a documented rejection or solve())")
ASSUMPTIONS = ["a rejection is any std::exception escaping the API call, or exit status 1 with a usage/error message on the command line",
               "uninitialised-read detection: -ftrivial-auto-var-init=zero vs =pattern differential (automatic variables), MALLOC_PERTURB_ 0xAA vs 0x55 differential (heap), plus valgrind memcheck on a rotating subset"]
TECHNIQUE = "sanitizer-instrumented option fuzzing: API driver and the real gmgpolar binary under ASan/UBSan with assertions on, zero/pattern auto-variable-initialisation differential, heap-fill (MALLOC_PERTURB_) differential, valgrind memcheck; outcome-class and statistics oracle"
LEVEL_TEXT = ("sampled executions under sanitizers: hundreds (quick) to ~20 000 (thorough) option tuples through both routes; every outcome "
              "must be 'ran' or a clean rejection, statistics must be finite, in range, and identical across builds that initialise "
              "automatic variables differently; memcheck sees uninitialised reads on a subset")
LEVEL_NOTE = "option space sampled, not enumerated; ASan red zones miss far-off overflows; MSan not used (uninstrumented runtime)"
