"""C08: grid transfer -- restriction = prolongation^T, interpolation exact and convex."""
from vlib.core import Stage

ID = "C08"
STAGES = [
    Stage("transfer", "p08_transfer", "plain", {"quick": 60, "thorough": 4000}, timeout_per_case=120),
    Stage("transfer-asan", "p08_transfer", "asan", {"quick": 16, "thorough": 300}, offset=1000000, timeout_per_case=300),
    # the wrappers the cycles call, on the solver's own levels, in every extrapolation mode and life stage of the object
    Stage("solver-wrappers", "p08b_solver_transfer", "plain", {"quick": 48, "thorough": 1500}, offset=2000000, timeout_per_case=300),
]
THRESHOLDS = {
    "restriction_is_transpose_ulps": 8.0,          # max |R_cf - P_fc| / (eps * |entry|)
    "optimised_equals_reference_ulps": 8.0,
    "optimised_equals_reference_random": 1e-13,
    "injection_selects_coarse_nodes": 0.5,
    "injection_after_prolongation_identity": 0.5,
    "support_is_neighbouring_coarse_nodes": 0.5,
    "weights_nonnegative": 0.5,
    "weights_sum_to_one_ulps": 16.0,
    "linear_reproduction_r": 1e-13,               # |sum_j w_ij (r_j - r_i)| / max_j |r_j - r_i|
    "linear_reproduction_theta": 1e-13,
    "adjoint_inner_product": 1e-13,
    "no_new_extrema": 1e-15,
    "all_outputs_written": 0.5,
    "solver_wrapper_is_the_interpolation_operator": 0.5,   # GMGPolar::prolongation etc. == Interpolation::apply* on the solver's levels, bit for bit
    "solver_pair_adjoint": 1e-13,                           # <R x, y> = <x, P y> through the wrappers, standard and extrapolated pair
}
MIN_NONTRIVIAL = {"quick": 25, "thorough": 200}
RULE = ("case = random coarse grid refined either by midpoints (what the library builds) or arbitrarily (fine nodes anywhere "
        "between coarse neighbours), explicit or automatic split on either level, DirBC flag, threads; in 40% the Interpolation object has first served another level pair (same nodes with other smoother splits, or another grid); pairs with > 10 000 fine nodes "
        "(parallel path, 1..16 threads) judged with random vectors, smaller ones by full matrix extraction with unit vectors of all "
        "nine operators; signature = (flavour, size class, fine split kind, coarse split auto?, fine circles mod 2, threads, angular "
        "kind, radial kind); non-trivial = every (i_r parity, i_theta parity) node class present in both sections of the fine grid")
ASSUMPTIONS = ["linear reproduction of the extrapolated pair is only required on midpoint-nested grids (index-space rule by design)"]
TECHNIQUE = "runtime monitor: operator matrices extracted with unit vectors and compared entrywise (transpose, optimised vs reference), row invariants (convexity, partition of unity, linear moments), random-vector adjointness on the parallel path; ASan/UBSan replay"
LEVEL_TEXT = ("sampled executions judged by an oracle: generated fine/coarse pairs in both flavours; all nine transfer operators "
              "extracted entry by entry; R = P^T and optimised = reference to 8 ulp, Inject.P = I exactly, weights >= 0 summing to one, "
              "first moments zero to 1e-13; the recorded defect F2 (non-midpoint nodes) is reported by key only")
LEVEL_NOTE = "sampling only; large pairs are judged with random vectors instead of full extraction"
