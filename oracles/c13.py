"""C13: a solver object can be reused -- results do not depend on earlier solves."""
from vlib.core import Stage

ID = "C13"
STAGES = [
    Stage("histories", "p13_reuse", "plain", {"quick": 40, "thorough": 2000}, timeout_per_case=300),
    Stage("histories-asan", "p13_reuse", "asan", {"quick": 8, "thorough": 150}, offset=1000000, timeout_per_case=900),
]
THRESHOLDS = {
    "grid_size_matches_fresh": 0.5,
    "solution_equals_fresh": 0.5,          # bit-identical solution vector (1 thread, same binary)
    "iterations_equal_fresh": 0.5,
    "reduction_factor_equals_fresh": 0.5,
    "error_presence_equals_fresh": 0.5,
    "exact_errors_equal_fresh": 0.5,
    "residual_history_equals_fresh": 0.5,  # every recorded residual norm of the solve, bit for bit (read through the guarded hook)
    "error_history_equals_fresh": 0.5,
}
REQUIRED_CHECKS = ["solution_equals_fresh", "iterations_equal_fresh", "reduction_factor_equals_fresh", "exact_errors_equal_fresh"]
MIN_NONTRIVIAL = {"quick": 15, "thorough": 300}


def post_stage(stage, res, verdict):
    verdict.extra["solves_compared_" + stage.name] = sum((o.get("info") or {}).get("solves", 0) for o in res["obs"])
    verdict.extra["resolves_without_setup_" + stage.name] = sum((o.get("info") or {}).get("resolves", 0) for o in res["obs"])
    verdict.extra["resetups_" + stage.name] = sum((o.get("info") or {}).get("resetups", 0) for o in res["obs"])


RULE = ("case = one solver object driven through a random history of length 3-5 (quick) / 3-8 (thorough): first setup+solve, then "
        "re-solve without setup, re-solve after changing solve-only options (maxIterations, tolerances, norm, cycle, smoothing steps, "
        "FMG cycle/iterations), or change of setup options (divideBy2, nr_exp, R0, extrapolation 0..3, FMG, strategy, maxLevels, DirBC; only the setters of changed options are called) "
        "followed by setup+solve; 20% follow the refinement loop of convergence_order.cpp; after every solve the tuple is compared "
        "with a fresh object; signature = (extrapolation sequence, FMG, strategy, transition kinds); non-trivial = >=1 re-solve and >=1 re-setup")
ASSUMPTIONS = ["1 thread, same binary: fresh and reused objects must agree bit for bit", "options consumed by setup() are always followed by setup() before solve()"]
TECHNIQUE = "history monitor: random call histories on one solver object, every solve's (solution, iterations, reduction factor, errors) compared bitwise with a freshly constructed twin; ASan/UBSan replay"
LEVEL_TEXT = ("sampled executions judged by an oracle: random operation histories incl. solve-without-setup, option changes and the "
              "shipped refinement loop; the differential oracle (fresh twin) needs no tolerance")
LEVEL_NOTE = "histories are sampled, not enumerated; multi-threaded reuse is covered by C12 only up to re-association"
