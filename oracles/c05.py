"""C05: the interior operator is symmetric positive definite."""
from vlib.core import Stage

ID = "C05"
import os
from vlib import core as _core

STAGES = [
    Stage("spd", "p05_spd", "plain", {"quick": 120, "thorough": 5000}, timeout_per_case=240),
    Stage("spd-asan", "p05_spd", "asan", {"quick": 16, "thorough": 300}, offset=1000000, timeout_per_case=900),
    # the recorded input of the open finding F17 (fixed grid and geometry parameters from /verif/findings): reproduces it on every run
    Stage("f17-witness", "p05_spd", "plain", {"quick": 1, "thorough": 1}, args={"witness": os.path.join(_core.VERIF, "findings", "F17_witness.txt")},
          offset=9000000, timeout_per_case=240),
]
THRESHOLDS = {
    # |<Ax,y> - <x,Ay>| / (|x|^T|A||y| + |y|^T|A||x|) over non-Dirichlet rows
    "symmetry_inner_product": 1e-12,
    # max |A_ij - A_ji| / max |A_ij| of the interior matrix extracted column by column
    "matrix_asymmetry": 1e-13,
    "cholesky_positive_definite": 0.5,   # boolean: all pivots of the long-double Cholesky factorisation > 0
    "positive_quadratic_form": 0.5,      # boolean: <Ax,x> > 0
}
MIN_NONTRIVIAL = {"quick": 40, "thorough": 300}


def post_stage(stage, res, verdict):
    n = sum(1 for o in res["obs"] if (o.get("info") or {}).get("mixed_terms_nonzero"))
    dense = sum(1 for o in res["obs"] if (o.get("sig") or {}).get("dense"))
    verdict.extra["cases_with_nonzero_mixed_terms"] = n
    verdict.extra["cases_with_dense_cholesky"] = dense
    mins = [(o.get("info") or {}).get("min_scaled_rayleigh_quotient") for o in res["obs"]]
    mins = [m for m in mins if isinstance(m, (int, float))]
    if mins:
        verdict.extra["smallest_scaled_rayleigh_quotient_seen"] = min(mins)
    if res["obs"] and n < 0.3 * len(res["obs"]):
        verdict.inconclusive.append("fewer than 30%% of the cases had non-zero mixed (art) terms: %d of %d" % (n, len(res["obs"])))


RULE = ("case = random admissible grid (non-uniform angular spacing in 70%; 5% levels of 81-97 x 128-160 nodes with 2-16 threads), "
        "geometry with emphasis on non-orthogonal mappings (Shafranov, Czarny, Culham; 15% mirrored, det DF < 0), profile, DirBC; one fixed "
        "witness case of F17; 6-10 vector pairs (uniform, wide, spikes, smooth, single node) "
        "vanishing on Dirichlet nodes, 4 inverse-iteration steps towards the smallest eigenvalue; on grids with <=500 (quick) / "
        "<=2000 (thorough) interior unknowns the interior matrix of give, take and the reference is extracted column by "
        "column and its symmetric part Cholesky-factorised in long double, as are all circle and radial line blocks; "
        "signature = (geometry, DirBC, angular kind, radial kind, size class, dense?, profile)")
ASSUMPTIONS = ["A x is observed as -(residual with zero rhs)", "definiteness on grids too large for the dense factorisation is only sampled by vectors"]
TECHNIQUE = "algebraic-invariant runtime monitor: inner-product symmetry on generated vector pairs, column-by-column matrix extraction with long-double Cholesky of the interior matrix and of every line block, inverse iteration towards the smallest eigenvalue; ASan/UBSan replay of the same generator"
LEVEL_TEXT = ("sampled executions judged by an oracle: generated grids/geometries; symmetry to 1e-12 of |x|^T|A||y|, deterministic "
              "definiteness verdict (Cholesky, all pivots > 0) wherever the interior matrix has <= 2000 unknowns, positivity of the "
              "quadratic form elsewhere")
LEVEL_NOTE = "sampling only; on large grids definiteness is only probed by random and inverse-iteration vectors; the smoothers' own line matrices are tied to these blocks by C06/C07"
