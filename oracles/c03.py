"""C03: one discrete operator (give / take / cached / uncached / every level / reference stencil)."""
from vlib.core import Stage

ID = "C03"
STAGES = [
    Stage("operator", "p03_operator", "plain", {"quick": 400, "thorough": 40000}),
    Stage("operator-asan", "p03_operator", "asan", {"quick": 48, "thorough": 1500}, offset=1000000),
    # the runtime delivers fewer threads than the operators request (results must not depend on the team size actually delivered)
    Stage("operator-thread-limit", "p03_operator", "plain", {"quick": 100, "thorough": 4000}, offset=2000000, env={"OMP_THREAD_LIMIT": "2"}),
]
# scaled differences: |r_a - r_b| / (sum_j |A_ij||u_j| + |f_i|); expected ~1e-15
THRESHOLDS = {
    "in_place_equals_out_of_place": 0.5,   # computeResidual(v, v, u): result aliasing the right-hand side, bit for bit
    "level_operator_equals_direct_operator": 0.5,   # Level::initializeResidual (twice: other boundary mode first) + computeResidual, bit for bit
    "give_vs_reference": 1e-12,
    "take_vs_reference": 1e-12,
    "take_vs_give": 1e-12,
    "cached_vs_uncached": 1e-12,
    "dirichlet_row_identity": 0.5,       # boolean (exact)
    "give_repeatable_bitwise": 0.5,      # 7 applications with the same multi-thread team give the same bits
    "coarse_cache_shape": 0.5,           # boolean
    "coarse_cache_trig": 0.0,            # bit-equal
    "coarse_cache_values": 1e-14,
    "cache_vs_reference_coefficients": 1e-12,
}
MIN_NONTRIVIAL = {"quick": 60, "thorough": 300}
RULE = ("cases drawn from VERIF_SEED: random admissible grid (nr 4..48, ntheta 4..96 even, uniform/geometric/random radii, "
        "uniform/random antipodal angles, explicit or automatic circle/radial split), random geometry (4 kinds, random "
        "parameters, 15% mirrored: det DF < 0), profile (7), DirBC, vector kind, threads; every level of the coarsening chain; signature = "
        "(geometry, profile, DirBC, circles mod 2, nr class, ntheta mod 4, levels, vector kind, threads); non-trivial = "
        "|A u| > 0 on every level and grid larger than minimal")
ASSUMPTIONS = [
    "the reference stencil (harness/common/ref_operator.h) is the documented 9-point / across-origin 7-point discretisation",
    "sampling: grids/geometries not generated are not covered",
]
TECHNIQUE = "differential runtime monitor: library residuals (give x4 cache modes, take, every level) vs an independent long-double reference stencil on generated grids; ASan/UBSan replay"
LEVEL_TEXT = ("sampled executions judged by an oracle: hundreds (quick) to tens of thousands (thorough) of generated "
              "grids/geometries/vectors; every row of every level compared with a reference stencil and pairwise, scaled by the "
              "row magnitude (threshold 1e-12, observed 1e-15); coarse caches compared entry-wise with fresh ones")
LEVEL_NOTE = ("trusts the harness reference stencil (documented formula) and the geometry/profile classes' point values; "
              "covers only generated inputs; differences below 1e-12 of the row scale are invisible")
